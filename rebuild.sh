#!/bin/bash
# quick rebuild of the harness in an existing scratch (harness sources only)
set -e
export GOFLAGS=-mod=mod GOPROXY=off GOSUMDB=off GOTOOLCHAIN=local
D=${1:-/var/tmp/sv-test}
rsync -a --exclude '*.test' --exclude go.sum --exclude worker /verif/harness/ "$D/harness/"
rsync -a /verif/inject/ "$D/repo/internal/"
cd "$D/harness" && go1.26.8 test -c -trimpath -o worker .
