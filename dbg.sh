#!/bin/bash
# usage: dbg.sh <scratch> <property> <seed> <idx> [tier]  -- run one simulated execution verbosely
S=$1; P=$2; SEED=$3; IDX=$4; TIER=${5:-quick}
cat > /tmp/dbgspec.json <<EOT
{"property":"$P","tier":"$TIER","seed":$SEED,"start":$IDX,"count":1,"mode":"run","out":"/tmp/dbgout.jsonl","samples":1,"verbose":true}
EOT
rm -f /tmp/dbgout.jsonl
(cd $S/harness && GOMAXPROCS=1 GODEBUG=asyncpreemptoff=1,randautoseed=0 VERIF_SPEC=/tmp/dbgspec.json ./worker -test.run TestWorker -test.timeout 10m 2>&1) | tail -40
python3 - <<'EOT'
import json
for l in open('/tmp/dbgout.jsonl'):
    r=json.loads(l)
    if r['type']=='run':
        print("INFO", r.get('info')); print("VIOL", r.get('viol')); print("STATS", r.get('stats')); print("SPINS", r.get('spins'))
        print("---- events"); print("\n".join(r.get('events',[])[-80:]))
        print("---- log"); print("\n".join(x[:300] for x in r.get('log',[])[-120:]))
EOT
