#!/usr/bin/env python3
"""Patches a scratch copy of xtaci/smux v1.5.14 (never the module cache) for the simulator.

shaperLoop chooses between accepting one more write request and handing the
next frame to sendLoop with a Go `select` over two ready channels, i.e. by the
runtime's per-thread random number generator, which cannot be seeded. With
several logical connections writing at once that single coin decides the order
of frames on the wire and makes same-seed runs diverge. The patch takes
pending requests first (one of the orders the original permits), so that the
order is a function of the schedule the driver controls."""
import sys
p = sys.argv[1]
s = open(p).read()
old = """		select {
		case <-s.die:
			return
		case r := <-s.shaper:
			if chWrite != nil { // next is valid, reshape
				heap.Push(&reqs, next)
			}
			heap.Push(&reqs, r)
		case chWrite <- next:
		}
"""
new = """		// [verif] deterministic preference: queued requests first (see /verif/patch_smux.py)
		select {
		case r := <-s.shaper:
			if chWrite != nil {
				heap.Push(&reqs, next)
			}
			heap.Push(&reqs, r)
			continue
		default:
		}
		select {
		case <-s.die:
			return
		case r := <-s.shaper:
			if chWrite != nil { // next is valid, reshape
				heap.Push(&reqs, next)
			}
			heap.Push(&reqs, r)
		case chWrite <- next:
		}
"""
if s.count(old) != 1:
    sys.stderr.write("patch_smux: shaperLoop does not look as expected\n")
    sys.exit(2)
s = s.replace(old, new)

# A registry of sessions, so that the resource ledger (C14) can count multiplexer streams that were
# never closed locally: they hold no goroutine or socket, only an entry in the session's stream table
# and its buffers - a leak per logical connection all the same.
hook = "\tgo s.keepalive()\n\treturn s\n}"
if s.count(hook) != 1:
    sys.stderr.write("patch_smux: newSession does not look as expected\n")
    sys.exit(2)
s = s.replace(hook, "\tgo s.keepalive()\n\tsimSessions = append(simSessions, s) // [verif]\n\treturn s\n}")
# A root-cause probe for the known finding C02-smux-early-first-frame: a data frame that arrives for a
# stream identifier which is not registered yet is dropped by recvLoop; if OpenStream registers that very
# identifier afterwards, the peer's first frame for the new stream has been lost. Observation only.
psh = """						if stream, ok := s.streams[sid]; ok {
							stream.pushBytes(newbuf)
							atomic.AddInt32(&s.bucket, -int32(written))
							stream.notifyReadEvent()
						}
"""
if s.count(psh) != 1:
    sys.stderr.write("patch_smux: recvLoop does not look as expected\n")
    sys.exit(2)
s = s.replace(psh, psh.replace("						}\n", "						} else {\n							simDropped[simKey{s, sid}] = true // [verif]\n						}\n", 1) if False else psh[:-len("						}\n")] + "						} else {\n							simDropped[simKey{s, sid}] = true // [verif]\n						}\n")
reg = "		s.streams[sid] = stream\n		return stream, nil\n"
if s.count(reg) != 1:
    sys.stderr.write("patch_smux: OpenStream does not look as expected\n")
    sys.exit(2)
s = s.replace(reg, "		s.streams[sid] = stream\n		if simDropped[simKey{s, sid}] { // [verif]\n			SimEarlyFirstFrames++\n		}\n		return stream, nil\n")
s += """
// [verif] see /verif/patch_smux.py
type simKey struct {
	s   *Session
	sid uint32
}

var simDropped = map[simKey]bool{}

// SimEarlyFirstFrames counts streams whose first inbound data frame arrived, and was dropped, before
// OpenStream had registered them.
var SimEarlyFirstFrames int

var simSessions []*Session

// SimResetSessions forgets the sessions of earlier runs.
func SimResetSessions() {
	simSessions = nil
	simDropped = map[simKey]bool{}
	SimEarlyFirstFrames = 0
}

// SimOpenStreams returns the number of streams in the stream tables of the sessions that are not closed.
// Called at quiescent points only.
func SimOpenStreams() int {
	n := 0
	for _, s := range simSessions {
		if s.IsClosed() {
			continue
		}
		s.streamLock.Lock()
		n += len(s.streams)
		s.streamLock.Unlock()
	}
	return n
}
"""
open(p, "w").write(s)
