#!/usr/bin/env python3
"""Patches a scratch copy of xtaci/smux v1.5.14 (never the module cache) for the simulator.

shaperLoop chooses between accepting one more write request and handing the
next frame to sendLoop with a Go `select` over two ready channels, i.e. by the
runtime's per-thread random number generator, which cannot be seeded. With
several logical connections writing at once that single coin decides the order
of frames on the wire and makes same-seed runs diverge. The patch takes
pending requests first (one of the orders the original permits), so that the
order is a function of the schedule the driver controls."""
import sys
p = sys.argv[1]
s = open(p).read()
old = """		select {
		case <-s.die:
			return
		case r := <-s.shaper:
			if chWrite != nil { // next is valid, reshape
				heap.Push(&reqs, next)
			}
			heap.Push(&reqs, r)
		case chWrite <- next:
		}
"""
new = """		// [verif] deterministic preference: queued requests first (see /verif/patch_smux.py)
		select {
		case r := <-s.shaper:
			if chWrite != nil {
				heap.Push(&reqs, next)
			}
			heap.Push(&reqs, r)
			continue
		default:
		}
		select {
		case <-s.die:
			return
		case r := <-s.shaper:
			if chWrite != nil { // next is valid, reshape
				heap.Push(&reqs, next)
			}
			heap.Push(&reqs, r)
		case chWrite <- next:
		}
"""
if s.count(old) != 1:
    sys.stderr.write("patch_smux: shaperLoop does not look as expected\n")
    sys.exit(2)
s = s.replace(old, new)

# A registry of sessions, so that the resource ledger (C14) can count multiplexer streams that were
# never closed locally: they hold no goroutine or socket, only an entry in the session's stream table
# and its buffers - a leak per logical connection all the same.
hook = "\tgo s.keepalive()\n\treturn s\n}"
if s.count(hook) != 1:
    sys.stderr.write("patch_smux: newSession does not look as expected\n")
    sys.exit(2)
s = s.replace(hook, "\tgo s.keepalive()\n\tsimSessions = append(simSessions, s) // [verif]\n\treturn s\n}")
s += """
// [verif] see /verif/patch_smux.py
var simSessions []*Session

// SimResetSessions forgets the sessions of earlier runs.
func SimResetSessions() { simSessions = nil }

// SimOpenStreams returns the number of streams in the stream tables of the sessions that are not closed.
// Called at quiescent points only.
func SimOpenStreams() int {
	n := 0
	for _, s := range simSessions {
		if s.IsClosed() {
			continue
		}
		s.streamLock.Lock()
		n += len(s.streams)
		s.streamLock.Unlock()
	}
	return n
}
"""
open(p, "w").write(s)
