#!/usr/bin/env python3
"""Patches a scratch copy of xtaci/smux v1.5.14 (never the module cache) for the simulator.

shaperLoop chooses between accepting one more write request and handing the
next frame to sendLoop with a Go `select` over two ready channels, i.e. by the
runtime's per-thread random number generator, which cannot be seeded. With
several logical connections writing at once that single coin decides the order
of frames on the wire and makes same-seed runs diverge. The patch takes
pending requests first (one of the orders the original permits), so that the
order is a function of the schedule the driver controls."""
import sys
p = sys.argv[1]
s = open(p).read()
old = """		select {
		case <-s.die:
			return
		case r := <-s.shaper:
			if chWrite != nil { // next is valid, reshape
				heap.Push(&reqs, next)
			}
			heap.Push(&reqs, r)
		case chWrite <- next:
		}
"""
new = """		// [verif] deterministic preference: queued requests first (see /verif/patch_smux.py)
		select {
		case r := <-s.shaper:
			if chWrite != nil {
				heap.Push(&reqs, next)
			}
			heap.Push(&reqs, r)
			continue
		default:
		}
		select {
		case <-s.die:
			return
		case r := <-s.shaper:
			if chWrite != nil { // next is valid, reshape
				heap.Push(&reqs, next)
			}
			heap.Push(&reqs, r)
		case chWrite <- next:
		}
"""
if s.count(old) != 1:
    sys.stderr.write("patch_smux: shaperLoop does not look as expected\n")
    sys.exit(2)
open(p, "w").write(s.replace(old, new))
