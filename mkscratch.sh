#!/bin/bash
# usage: mkscratch.sh <dir>  -- assemble a simulated build of /repo's working tree under <dir>
set -e
export GOFLAGS=-mod=mod GOPROXY=off GOSUMDB=off GOTOOLCHAIN=local
D=$1
rm -rf "$D"; mkdir -p "$D"
rsync -a --exclude .git /repo/ "$D/repo/"
/verif/bin/simify "$D/repo" /verif/inject
cp -r /root/go/pkg/mod/github.com/xtaci/kcp-go/v5@v5.6.1 "$D/kcp-go"; chmod -R u+w "$D/kcp-go"
sed -i 's/if now.After(task.ts) {/if !now.Before(task.ts) {/; s/if now.After(tasks\[0\].ts) {/if !now.Before(tasks[0].ts) {/' "$D/kcp-go/timedsched.go"
test "$(grep -c '!now.Before' "$D/kcp-go/timedsched.go")" = 2
cp -r /root/go/pkg/mod/github.com/xtaci/smux@v1.5.14 "$D/smux"; chmod -R u+w "$D/smux"
python3 /verif/patch_smux.py "$D/smux/session.go"
rsync -a --exclude '*.test' /verif/harness/ "$D/harness/"
cp /repo/go.sum "$D/harness/go.sum"
cd "$D/harness" && go1.26.8 test -c -trimpath -o worker .
