#!/usr/bin/env python3
"""Writes MANIFEST.json from vconfig.PROPS (single source of truth for the checks)."""
import json, os, sys
sys.path.insert(0, os.path.dirname(os.path.abspath(__file__)))
from vconfig import PROPS, NOT_APPLICABLE

BASELINE = json.load(open("/root/.vp/BASELINE.json"))["cmd"]
checks = []
for pid in sorted(PROPS):
    c = PROPS[pid]
    checks.append({
        "property_id": pid,
        "quick_cmd": "./vcheck run %s --tier quick" % pid,
        "thorough_cmd": "./vcheck run %s --tier thorough" % pid,
        "evidence_file": "/verif/evidence/%s.json" % pid,
        "replay_cmd_template": "./vcheck replay {path}",
        "engine": "socketace-dst",
        "level_claimed": {"category": c["level"], "text": c["level_text"], "design_ref": c.get("design_ref", "DESIGN.md section 5")},
        "level_note": c["level_note"],
        "technique": c["technique"],
    })
m = {
    "version": 1,
    "setup_cmd": "./vcheck setup",
    "hooks": {
        "guard": "verif",
        "enable": "none needed: checks copy /repo's working tree to a scratch directory and put it on the simulator with a mechanical go/ast rewrite (simify); /repo carries no instrumentation",
        "baseline_off_cmd": BASELINE,
        "source_commits": [],
        "add_only": True,
    },
    "engines": [{
        "name": "socketace-dst",
        "path": "/verif/vcheck",
        "serves_properties": sorted(PROPS),
        "kind_free_text": "deterministic simulation with fault injection: Go 1.26 testing/synctest fake clock + in-memory network (simnet) + seeded driver choosing every delivery, chunking, loss, duplicate, reorder, cut, stall and operation; choice-vector replay and shrinking",
    }],
    "checks": checks,
    "not_applicable": NOT_APPLICABLE,
    "notes": "One integer (VERIF_SEED) decides every run. See DESIGN.md. known_findings.json lists genuine defects recorded rather than repaired and the fix: commits made.",
}
json.dump(m, open(os.path.join(os.path.dirname(os.path.abspath(__file__)), "MANIFEST.json"), "w"), indent=1)
print("MANIFEST.json written with %d checks, %d not applicable" % (len(checks), len(NOT_APPLICABLE)))
