package verif

import (
	"crypto/tls"
	"fmt"
	"net"
	"net/http"
	"strings"
	"time"

	"github.com/bokysan/socketace/v2/internal/simrt"
	sdns "github.com/bokysan/socketace/v2/internal/streams/dns"
	"github.com/gorilla/websocket"
	kcp "github.com/xtaci/kcp-go/v5"
)

func init() { Scenarios["C15"] = scenarioC15 }

var c15Endpoints = []string{"tcp", "unix", "tcp+tls", "ws", "wss", "udp", "dns+udp", "dns+tcp"}
var c15Points = []string{"connect", "partial-line", "between", "tls-hello", "starttls-hello", "after-upgrade"}
var c15Behaviours = []string{"silent", "drip", "garbage"}

const announce = "X-SOCKETACE / HTTP/1.1\r\nAccepts-Protocol-Version: v2.0.0\r\nUser-Agent: socketace/staller\r\n\r\n"
const upgradeReq = "GET / HTTP/1.1\r\nConnection: upgrade\r\nUpgrade: socketace/v2.0.0\r\nUser-Agent: socketace/staller\r\n\r\n"

// C15Cells enumerates stall point x behaviour x endpoint kind (cells that make sense for the kind).
func C15Cells() [][3]string {
	var out [][3]string
	for _, ep := range c15Endpoints {
		for _, pt := range c15Points {
			if pt == "tls-hello" && !(ep == "tcp+tls" || ep == "wss") {
				continue
			}
			if pt == "connect" && ep == "udp" {
				continue // a KCP peer exists only once it has sent a packet
			}
			if pt == "starttls-hello" && (ep == "tcp+tls" || ep == "wss") {
				continue // StartTLS is only offered on carriers that are not encrypted already
			}
			for _, bh := range c15Behaviours {
				if bh != "silent" && (pt == "connect" || pt == "after-upgrade") {
					continue
				}
				out = append(out, [3]string{ep, pt, bh})
			}
		}
	}
	return out
}

// staller opens a transport-level connection to the server endpoint the way a
// client of that kind would, and then misbehaves at the chosen point.
func startStaller(r *Run, w *World, id int, ep, point, behaviour string, goDark func(ip string)) {
	// which garbage: varies with the staller and with the pass over the cell table
	garbage := c15Garbage[(id+r.Idx/len(C15Cells()))%len(c15Garbage)]
	stallerIP := fmt.Sprintf("10.0.1.%d", 10+id)
	port := CarrierPort(ep)
	n := r.Net
	n.SourceIP = fmt.Sprintf("10.0.1.%d", 10+id)
	var conn net.Conn
	var err error
	var dnsComm *sdns.NetConnectionClientCommunicator
	switch ep {
	case "tcp", "tcp+tls":
		conn, err = n.Dial("tcp", fmt.Sprintf("%s:%d", ServerIP, port), 0)
	case "unix":
		conn, err = n.Dial("unix", fmt.Sprintf("sa-%d.sock", port), 0)
	case "ws", "wss":
		conn, err = n.Dial("tcp", fmt.Sprintf("%s:%d", ServerIP, port), 0)
	case "udp":
		var pc net.PacketConn
		pc, err = n.ListenPacket("udp", "")
		if err == nil {
			conn, err = kcp.NewConn2(&net.UDPAddr{IP: net.ParseIP(ServerIP), Port: port}, nil, 10, 3, pc)
		}
	case "dns+udp", "dns+tcp":
		// DNS stallers run the real DNS-level handshake in their own goroutine below; the socket is
		// bound here, while the staller's own source address is in force
		addr := fmt.Sprintf("%s:%d", ServerIP, port)
		var servers sdns.AddressList
		if ep == "dns+tcp" {
			servers = sdns.AddressList{sdns.MustResolveNetworkAddress("tcp", addr, "53")}
		} else {
			servers = sdns.AddressList{sdns.MustResolveNetworkAddress("udp", addr, "53")}
		}
		dnsComm, err = sdns.NewNetConnectionClientCommunicator(&sdns.ClientConfig{Servers: servers})
	}
	n.SourceIP = ClientIP
	if err != nil {
		r.Fail("harness", "staller %d could not connect: %v", id, err)
		return
	}
	r.Count("stallers_started")
	go func() {
		defer func() { recover() }()
		if ep == "dns+udp" || ep == "dns+tcp" {
			comm := dnsComm
			dc, err := sdns.NewClientDnsConnection(Domain, comm)
			if err != nil {
				return
			}
			if err := dc.Handshake(); err != nil {
				return
			}
			conn = dc
		}
		if (ep == "tcp+tls" || ep == "wss") && point != "connect" && point != "tls-hello" {
			tc := tls.Client(conn, &tls.Config{InsecureSkipVerify: true})
			if err := tc.Handshake(); err != nil {
				return
			}
			conn = tc
		}
		if point == "tls-hello" {
			// the beginning of a TLS record that never completes
			conn.Write([]byte{0x16, 0x03, 0x01, 0x02, 0x00, 0x01, 0x00, 0x01, 0xfc, 0x03, 0x03, 0x11, 0x22})
			misbehave(conn, behaviour, garbage, nil)
			return
		}
		if (ep == "ws" || ep == "wss") && point != "connect" {
			if point == "partial-line" && behaviour != "garbage" {
				// stall inside the HTTP request itself
				conn.Write([]byte("GET /ws/all HTTP/1.1\r\nHost: x\r\nUpgr"))
				misbehave(conn, behaviour, garbage, nil)
				return
			}
			d := websocket.Dialer{NetDialContext: nil, NetDial: func(network, addr string) (net.Conn, error) { return conn, nil }, HandshakeTimeout: 45 * time.Second}
			scheme := "ws"
			wc, _, err := d.Dial(fmt.Sprintf("%s://%s:%d/ws/all", scheme, ServerIP, port), http.Header{})
			if err != nil {
				return
			}
			conn = &wsStream{wc}
		}
		switch point {
		case "connect":
			// nothing, for ever
		case "partial-line":
			conn.Write([]byte(announce[:17]))
			misbehave(conn, behaviour, garbage, []byte(announce[17:40]))
		case "between":
			conn.Write([]byte(announce))
			if goDark != nil {
				// the peer's host vanishes with the server's answer still unacknowledged
				goDark(stallerIP)
				return
			}
			buf := make([]byte, 4096)
			conn.Read(buf)
			misbehave(conn, behaviour, garbage, []byte(upgradeReq[:20]))
		case "starttls-hello":
			// asks for the StartTLS upgrade the server offers, gets its 101, and stalls inside the TLS hello
			conn.Write([]byte(announce))
			buf := make([]byte, 4096)
			conn.Read(buf)
			conn.Write([]byte(strings.Replace(upgradeReq, "User-Agent:", "Security: StartTLS\r\nUser-Agent:", 1)))
			conn.Read(buf)
			conn.Write([]byte{0x16, 0x03, 0x01, 0x02, 0x00, 0x01, 0x00, 0x01, 0xfc, 0x03, 0x03})
			misbehave(conn, behaviour, garbage, []byte{0x11, 0x22, 0x33, 0x44, 0x55, 0x66, 0x77, 0x88, 0x99, 0xaa, 0xbb, 0xcc})
		case "after-upgrade":
			conn.Write([]byte(announce))
			buf := make([]byte, 4096)
			conn.Read(buf)
			conn.Write([]byte(upgradeReq))
			if goDark != nil {
				goDark(stallerIP)
				return
			}
			conn.Read(buf)
		}
	}()
}

type wsStream struct{ *websocket.Conn }

func (w *wsStream) Write(p []byte) (int, error) {
	return len(p), w.Conn.WriteMessage(websocket.BinaryMessage, p)
}
func (w *wsStream) Read(p []byte) (int, error) {
	_, m, err := w.Conn.ReadMessage()
	return copy(p, m), err
}
func (w *wsStream) SetDeadline(t time.Time) error { return nil }

// c15Garbage: what a garbage-sending peer says - random bytes, or text that looks like some other protocol
// (complete header blocks, request lines with too few or too many words, near misses of the announcement)
var c15Garbage = []string{"", "GET / HTTP/1.1\r\nHost: x\r\n\r\n", "GET /\r\n\r\n", "HELO x\r\n\r\n", "X-SOCKETACE /\r\n\r\n", "\r\n\r\n", "X-SOCKETACE\r\n\r\n", "SSH-2.0-OpenSSH_9.6\r\n", "a b c d e f\r\nk: v\r\n\r\n", " / \r\n\r\n",
	// near misses of the genuine announcement: the supported version in the wrong case, padded, with a suffix, absent
	"X-SOCKETACE / HTTP/1.1\r\nAccepts-Protocol-Version: V2.0.0\r\nUser-Agent: x\r\n\r\n", "X-SOCKETACE / HTTP/1.1\r\nAccepts-Protocol-Version:   v2.0.0  , V2.0.0\r\n\r\n",
	"X-SOCKETACE / HTTP/1.1\r\nAccepts-Protocol-Version: v2.0.0-rc1\r\n\r\n", "X-SOCKETACE / HTTP/1.1\r\nAccepts-Protocol-Version:\r\n\r\n", "x-socketace / http/1.1\r\naccepts-protocol-version: v2.0.0\r\n\r\n"}

func misbehave(conn net.Conn, behaviour string, garbage string, rest []byte) {
	switch behaviour {
	case "silent":
	case "drip":
		for i := 0; i < len(rest) && i < 12; i++ {
			time.Sleep(10 * time.Second)
			if _, err := conn.Write(rest[i : i+1]); err != nil {
				return
			}
		}
	case "garbage":
		g := make([]byte, 64)
		prfFill(0x6a7b, 0, g)
		if garbage != "" {
			g = []byte(garbage)
		}
		conn.Write(g)
	}
}

func scenarioC15(r *Run) {
	c := r.Ch
	cells := C15Cells()
	// the cell is enumerated by run index so that a batch covers the whole table;
	// arrivals, number of stallers and good clients, and link ordering are sampled
	cell := cells[r.Idx%len(cells)]
	ep, point, behaviour := cell[0], cell[1], cell[2]
	r.Count("cell/" + ep + "|" + point + "|" + behaviour)
	r.Info["cells_total"] = len(cells)
	cfg := WorldCfg{Carrier: ep, NoClient: true}
	if CarrierEncrypted(ep) {
		cfg.ServerCert = "good"
		cfg.ClientInsecure = true
	} else if point == "starttls-hello" || c.Chance(1, 3, "starttls") {
		cfg.ServerCert = "good"
		cfg.ClientInsecure = true
	}
	cfg.Channels = []ChanCfg{{Name: "alpha", Target: "tcp://" + TargetIP + ":7001"}}
	nst := 1 + c.Pick(3, "stallers")
	crowd := false
	if !CarrierIsDNS(ep) && c.Chance(1, 5, "many-stallers") {
		crowd = true // (the whole crowd is in place before the last well-behaved client arrives)
		// a crowd of misbehaving peers at once: limits and queues that a few stalled peers never fill
		nst = 17 + c.Pick(16, "crowd")
		r.Count("runs_with_a_crowd_of_stallers")
	}
	ngood := 1 + c.Pick(3, "good-clients")
	r.Info["endpoint"] = ep
	r.Info["stall_point"] = point
	r.Info["behaviour"] = behaviour
	r.Info["stallers"] = nst
	r.Info["good_clients"] = ngood
	w, err := BuildWorld(r, cfg)
	if err != nil {
		r.Fail("world-setup", "could not build world: %v", err)
		return
	}
	// every good client is its own process-like client command with one listener
	conns := make([]*LConn, ngood)
	for i := range conns {
		lsn := LsnCfg{Channel: "alpha", Kind: "tcp", Addr: fmt.Sprintf("127.0.0.1:%d", 6100+i)}
		if _, err := w.NewClient([]LsnCfg{lsn}); err != nil {
			r.Fail("world-setup", "client %d: %v", i, err)
			return
		}
		lc := &LConn{I: i, TIdx: 0, Lsn: lsn, Mode: "active"}
		lc.PlanA = Partition(c, 1024, "app-part")
		lc.PlanT = Partition(c, 1024, "tgt-part")
		conns[i] = lc
	}
	cs := NewConnSet(r, w, "app", conns)
	pol := &NetPolicy{ChunkBias: c.Pick(2, "chunk-bias")}
	darkIPs := map[string]bool{}
	r.DgramFilter = func(seq int) bool {
		if len(darkIPs) == 0 {
			return false
		}
		d := r.Net.PeekDgram(seq)
		if d == nil {
			return false
		}
		from, to := d.From.String(), d.To.String()
		for ip := range darkIPs {
			if strings.HasPrefix(from, ip+":") || strings.HasPrefix(to, ip+":") {
				r.Net.DropDgram(seq)
				return true
			}
		}
		return false
	}
	started := 0
	waited := false
	lateArrival := []time.Duration{0, 0, 0, 90 * time.Second, 7 * time.Minute, 12 * time.Minute}[c.Pick(6, "late-arrival")]
	if crowd {
		lateArrival = 0 // the crowd is meant to be there, all of it, when the client arrives
	}
	r.Info["late_arrival"] = lateArrival.String()
	openedAt := map[int]time.Duration{}
	doneAt := map[int]time.Duration{}
	stamp := func() {
		cs.Assign()
		for _, lc := range conns {
			if _, ok := doneAt[lc.I]; !ok && lc.Opened && cs.Complete(lc, false) {
				doneAt[lc.I] = r.SimElapsed()
			}
		}
	}
	extra := func() []Ev {
		var evs []Ev
		if started < nst {
			id := started
			evs = append(evs, Ev{Kind: "app", Desc: fmt.Sprintf("staller %d connects", id), key: fmt.Sprintf("s%04d", id), Do: func() {
				started++
				r.Logf("staller %d connects (%s, %s, %s)", id, ep, point, behaviour)
				r.AddShape("staller")
				var dark func(ip string)
				if CarrierIsDNS(ep) && ep == "dns+udp" && behaviour == "silent" && (point == "between" || point == "after-upgrade") && c.Chance(1, 2, "staller-host-vanishes") {
					dark = func(ip string) {
						darkIPs[ip] = true
						r.Count("fault_staller_host_vanished")
						r.Logf("staller %d: host %s vanishes (every datagram from and to it is lost from now on)", id, ip)
					}
				}
				startStaller(r, w, id, ep, point, behaviour, dark)
			}})
		}
		// at least one staller is in place before the last good client arrives - and, in some runs, has
		// been in place for a while ("during that time": the server's own timers for the stalled peer's
		// session - expiry, pruning, keep-alive - fire meanwhile)
		if cs.nOpen == ngood-1 && started > 0 && lateArrival > 0 && !waited {
			// (the clients already connected finish first: their scripted writes are driver decisions and
			// would otherwise stand still during the wait)
			stamp()
			busy := false
			for _, lc := range conns {
				if _, ok := doneAt[lc.I]; lc.Opened && !ok {
					busy = true
				}
			}
			if !busy {
				evs = append(evs, Ev{Kind: "app", Desc: fmt.Sprintf("the last client arrives %v later", lateArrival), key: "w", Do: func() {
					waited = true
					r.Count("late_arrivals")
					r.AddShape("late")
					// in slices, so that clients that complete meanwhile are stamped when they complete
					for end := r.SimElapsed() + lateArrival; r.SimElapsed() < end; {
						r.RunFor(5 * time.Second)
						stamp()
					}
				}})
			}
		} else if !(cs.nOpen == ngood-1 && (started == 0 || (crowd && started < nst))) {
			evs = append(evs, cs.OpenEv(func(i int) { openedAt[i] = r.SimElapsed() })...)
		}
		evs = append(evs, cs.PeerEvents()...)
		return evs
	}
	goal := func() bool {
		cs.Assign()
		all := started == nst && cs.AllOpened()
		for _, lc := range conns {
			if cs.Complete(lc, false) {
				if _, ok := doneAt[lc.I]; !ok {
					doneAt[lc.I] = r.SimElapsed()
				}
			} else {
				all = false
			}
		}
		return all
	}
	out := r.Drive(pol, goal, extra, 90*time.Second, 35*time.Minute)
	r.Info["drive_outcome"] = out.String()
	if out == Aborted {
		return
	}
	sig := fmt.Sprintf("endpoint=%s", ep)
	var maxLat time.Duration
	defer func() { r.Info["slowest_good_client"] = maxLat.String() }()
	for _, lc := range conns {
		if !lc.Opened {
			continue
		}
		d, ok := doneAt[lc.I]
		if !ok {
			r.FailSig("blocked", sig, "%s: well-behaved client %d did not complete its handshake and 1 KiB exchange while %d peer(s) stalled at %q (%s) on the %s endpoint: %v", out, lc.I, started, point, behaviour, ep, cs.Describe())
			return
		}
		lat := d - openedAt[lc.I]
		// The bound separates "served at its own pace" from "served when a stalled peer's time-out
		// expires": the server gives a silent peer HandshakeTimeout (30 s), so a well-behaved client that
		// needs 20 s or more has been waiting for somebody else. The DNS tunnel's own handshake (query-type
		// and codec detection with 1-3 s retries) is slower: 60 s there.
		bound := 20 * time.Second
		if CarrierIsDNS(ep) {
			bound = 60 * time.Second
		}
		if lat > bound {
			r.FailSig("delayed", sig, "well-behaved client %d needed %v (bound %v simulated) while %d peer(s) stalled at %q (%s) on the %s endpoint", lc.I, lat, bound, started, point, behaviour, ep)
			return
		}
		if lat > maxLat {
			maxLat = lat
		}
	}
	if out == GoalMet {
		r.NonTriv = true
		r.Count("good_clients_served")
	}
	_ = simrt.DialOK
}
