package verif

import (
	"testing/synctest"
	"time"
)

// Scenario is one property's simulated workload plus oracles.
type Scenario func(r *Run)

var Scenarios = map[string]Scenario{}

func heartbeat(r *Run) {}

type Outcome int

const (
	GoalMet  Outcome = iota
	Stuck            // nothing enabled and no activity for the idle bound
	TimedOut         // simulated time limit reached while still making steps
	Aborted          // a violation was recorded
)

func (o Outcome) String() string {
	return [...]string{"goal-met", "stuck", "timed-out", "aborted"}[o]
}

// Drive makes driver decisions until goal() holds. After r.MaxSteps decisions
// the policy degrades to whole, oldest-first delivery without faults (drain
// phase), so that a step budget never masquerades as a property failure.
func (r *Run) Drive(p *NetPolicy, goal func() bool, extra func() []Ev, idle, limit time.Duration) Outcome {
	deadline := time.Now().Add(limit)
	start := r.Steps
	for {
		synctest.Wait() // let the effects of the last decision settle before judging
		if r.Failed() {
			return Aborted
		}
		if goal() {
			return GoalMet
		}
		if !time.Now().Before(deadline) {
			return TimedOut
		}
		if r.Steps-start > r.MaxSteps && !p.Whole {
			r.Count("drain_phase_forced")
			q := *p
			q.Whole = true
			q.LossBudget, q.DupBudget, q.DelayBudget = 0, 0, 0
			q.Reorder = false
			p = &q
		}
		if r.Steps-start > 6*r.MaxSteps {
			return TimedOut
		}
		var ex []Ev
		if extra != nil {
			ex = extra()
		}
		if !r.Step(p, ex, idle) {
			// idle: nothing enabled, nothing happened for the whole idle bound
			if goal() {
				return GoalMet
			}
			return Stuck
		}
	}
}

// boundary payload sizes the properties name explicitly
var sizeBoundaries = []int{1, 2, 4095, 4096, 4097, 32639, 32640, 32641, 32767, 32768, 32769, 65535, 65536, 65537}

// PickSize draws a payload/write size: a boundary value or log-uniform up to max.
func PickSize(c *Chooser, max int, label string) int {
	if c.Chance(2, 5, label+"/boundary?") {
		var ok []int
		for _, b := range sizeBoundaries {
			if b <= max {
				ok = append(ok, b)
			}
		}
		if len(ok) > 0 {
			return ok[c.Pick(len(ok), label+"/boundary")]
		}
	}
	return c.LogUniform(max, label)
}

// Partition splits total bytes into write sizes.
func Partition(c *Chooser, total int, label string) []Op {
	var ops []Op
	mode := c.Pick(4, label+"/mode") // 0 one write, 1 boundary-ish, 2 random, 3 small
	rem := total
	for rem > 0 && len(ops) < 64 {
		var k int
		switch mode {
		case 0:
			k = rem
		case 1:
			k = PickSize(c, rem, label+"/w")
		case 2:
			k = 1 + c.Pick(rem, label+"/w")
		default:
			k = 1 + c.Pick(min(rem, 1500), label+"/w")
		}
		if k > rem {
			k = rem
		}
		ops = append(ops, Op{Kind: "write", N: k})
		rem -= k
	}
	if rem > 0 {
		ops = append(ops, Op{Kind: "write", N: rem})
	}
	return ops
}

func min(a, b int) int {
	if a < b {
		return a
	}
	return b
}

func sumWrites(ops []Op) int64 {
	var s int64
	for _, o := range ops {
		if o.Kind == "write" {
			s += int64(o.N)
		}
	}
	return s
}
