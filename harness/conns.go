package verif

import (
	"fmt"

	"github.com/bokysan/socketace/v2/internal/simrt"
)

// LConn is one logical connection of a multi-connection world: an application
// socket on a client listener and (once matched) the socket the channel's
// target accepted for it.
type LConn struct {
	I        int
	Lsn      LsnCfg
	TIdx     int    // index into World.Targets
	First    string // who writes the first byte: "app" or "target" (identifies the pair)
	Mode     string // active, idle, paused-app, paused-target
	PlanA    []Op
	PlanT    []Op
	WantA    int64
	WantT    int64
	App      *Peer
	Tp       *Peer
	Opened   bool
	OpenAt   int // step
	TpTarget int // index of the target whose socket was matched (Cross mode)
	Expect   int // expected target index, -1 = must be refused (C03)
}

// ConnSet manages k logical connections and matches target-side sockets to
// application sockets by stream content (connections are otherwise anonymous).
type ConnSet struct {
	R     *Run
	W     *World
	Conns []*LConn
	First string
	nOpen int
	// Together makes OpenEv offer one event that opens every connection not yet opened, back to back
	// (applications connecting at the same instant).
	Together bool
	// Order, if set, is the order in which OpenEv opens the connections (a permutation of their indexes).
	Order []int
	// KeySpan is how many accept indexes of a target an application must be able to recognise.
	KeySpan int
	// Cross lets every receiver recognise every writer of the run (mis-routing becomes attributable).
	Cross bool
}

func NewConnSet(r *Run, w *World, first string, conns []*LConn) *ConnSet {
	cs := &ConnSet{R: r, W: w, Conns: conns, First: first}
	for ti, t := range w.Targets {
		ti := ti
		var keys, allKeys []Candidate
		for _, lc := range conns {
			if lc.TIdx == ti {
				keys = append(keys, AppKey(r.Seed, lc.I))
			}
			allKeys = append(allKeys, AppKey(r.Seed, lc.I))
		}
		t.Cands = func() []Candidate {
			if cs.Cross {
				return allKeys
			}
			return keys
		}
		if first == "target" {
			t.Plan = func(j int) []Op { return []Op{{Kind: "write", N: 1}} }
		}
	}
	for _, lc := range conns {
		lc.First = first
		lc.WantA, lc.WantT = sumWrites(lc.PlanA), sumWrites(lc.PlanT)
	}
	return cs
}

func (cs *ConnSet) tgtKeys(ti int) []Candidate {
	var ks []Candidate
	if cs.Cross {
		n := len(cs.Conns) + 4
		if cs.KeySpan > n {
			n = cs.KeySpan
		}
		for x := range cs.W.Targets {
			for j := 0; j < n; j++ {
				ks = append(ks, TargetKey(cs.R.Seed, cs.W.Targets[x].Index, j))
			}
		}
		return ks
	}
	span := cs.KeySpan
	if span == 0 {
		span = len(cs.Conns) + 4
	}
	for j := 0; j < span; j++ {
		ks = append(ks, TargetKey(cs.R.Seed, cs.W.Targets[ti].Index, j))
	}
	return ks
}

// Open dials the application side of connection i.
func (cs *ConnSet) Open(i int) bool {
	lc := cs.Conns[i]
	conn, err := cs.W.DialApp(lc.Lsn)
	if err != nil {
		cs.R.Fail("connect", "application could not connect to the client listener %s: %v", lc.Lsn.Addr, err)
		return false
	}
	lc.App = NewPeer(cs.R, fmt.Sprintf("app%d", lc.I), "app", conn, AppKey(cs.R.Seed, lc.I), cs.tgtKeys(lc.TIdx))
	lc.App.Script = lc.PlanA
	if lc.Mode == "paused-app" && cs.First == "app" {
		lc.App.Do(Op{Kind: "pause"})
	}
	cs.R.registerPeer(lc.App)
	lc.Opened = true
	lc.OpenAt = cs.R.Steps
	cs.nOpen++
	cs.R.Logf("open conn %d (%s, %s, %d/%d)", lc.I, lc.Lsn.Channel, lc.Mode, lc.WantA, lc.WantT)
	cs.R.AddShape("open")
	return true
}

func (cs *ConnSet) AllOpened() bool { return cs.nOpen == len(cs.Conns) }

// OpenEv is the driver event "open the next connection".
func (cs *ConnSet) OpenEv(before func(i int)) []Ev {
	if cs.nOpen >= len(cs.Conns) {
		return nil
	}
	if cs.Together {
		return []Ev{{Kind: "app", Desc: fmt.Sprintf("open conns %d.. together", cs.nOpen), key: "o-all", Do: func() {
			for cs.nOpen < len(cs.Conns) {
				i := cs.nOpen
				if before != nil {
					before(i)
				}
				if !cs.Open(i) {
					return
				}
			}
		}}}
	}
	i := cs.nOpen
	if len(cs.Order) == len(cs.Conns) {
		i = cs.Order[cs.nOpen]
	}
	return []Ev{{Kind: "app", Desc: fmt.Sprintf("open conn %d", i), key: fmt.Sprintf("o%04d", i), Do: func() {
		if before != nil {
			before(i)
		}
		cs.Open(i)
	}}}
}

// Assign matches target sockets to logical connections.
func (cs *ConnSet) Assign() {
	for _, lc := range cs.Conns {
		if lc.Tp != nil || !lc.Opened {
			continue
		}
		if cs.First == "app" {
			for ti, t := range cs.W.Targets {
				if ti != lc.TIdx && !cs.Cross {
					continue
				}
				for _, p := range t.Peers() {
					if _, rc, _, _, _, pk := p.Snapshot(); rc > 0 && pk == lc.App.TxKey {
						lc.Tp = p
						lc.TpTarget = ti
					}
				}
			}
		} else {
			if _, rc, _, _, _, pk := lc.App.Snapshot(); rc > 0 && pk != 0 {
				lc.Tp = cs.R.peerByKey(pk)
			}
		}
		if lc.Tp != nil && !lc.Tp.scriptSet {
			lc.Tp.scriptSet = true
			plan := lc.PlanT
			if cs.First == "target" {
				// the 1-byte preamble has been written already: drop it from the plan
				plan = dropBytes(plan, 1)
			}
			lc.Tp.Script = plan
			if lc.Mode == "paused-target" {
				lc.Tp.Do(Op{Kind: "pause"})
			}
			if lc.Mode == "paused-app" && cs.First == "target" {
				// the application had to read the identifying byte first; it stops reading now
				lc.App.Do(Op{Kind: "pause"})
			}
			cs.R.Logf("matched conn %d with %s", lc.I, lc.Tp.Name)
		}
	}
}

func dropBytes(plan []Op, n int) []Op {
	out := make([]Op, 0, len(plan))
	for _, o := range plan {
		if o.Kind == "write" && n > 0 {
			if o.N <= n {
				n -= o.N
				continue
			}
			o.N -= n
			n = 0
		}
		out = append(out, o)
	}
	return out
}

func (cs *ConnSet) PeerEvents() []Ev {
	cs.Assign()
	var evs []Ev
	for _, lc := range cs.Conns {
		if lc.App != nil {
			if e, ok := lc.App.NextEv(); ok {
				evs = append(evs, e)
			}
		}
	}
	for _, t := range cs.W.Targets {
		for _, p := range t.Peers() {
			if e, ok := p.NextEv(); ok {
				evs = append(evs, e)
			}
		}
	}
	return evs
}

// Complete reports whether both directions of lc have been fully delivered,
// ignoring a direction whose reader is paused when allowPaused.
func (cs *ConnSet) Complete(lc *LConn, allowPaused bool) bool {
	if !lc.Opened || lc.Tp == nil {
		return false
	}
	as, ar, _, _, _, _ := lc.App.Snapshot()
	ts, tr, _, _, _, _ := lc.Tp.Snapshot()
	okA := as == lc.WantA && (tr == lc.WantA || (allowPaused && lc.Mode == "paused-target"))
	okT := ts == lc.WantT && (ar == lc.WantT || (allowPaused && lc.Mode == "paused-app"))
	return okA && okT
}

func (cs *ConnSet) Describe() []string {
	var det []string
	for _, lc := range cs.Conns {
		st := "not opened"
		if lc.Opened {
			as, ar, aeof, aerr, _, _ := lc.App.Snapshot()
			st = fmt.Sprintf("app sent %d/%d rcvd %d/%d eof=%v err=%v", as, lc.WantA, ar, lc.WantT, aeof, aerr)
			if lc.Tp != nil {
				ts, tr, teof, terr, _, _ := lc.Tp.Snapshot()
				st += fmt.Sprintf("; target sent %d/%d rcvd %d/%d eof=%v err=%v", ts, lc.WantT, tr, lc.WantA, teof, terr)
			} else {
				st += "; no target connection matched"
			}
		}
		det = append(det, fmt.Sprintf("[%d %s %s: %s]", lc.I, lc.Lsn.Channel, lc.Mode, st))
	}
	return det
}

// CheckPairing verifies that matching is mutual (no stream swapped between connections).
func (cs *ConnSet) CheckPairing(rule string) {
	for _, lc := range cs.Conns {
		if lc.Tp == nil || lc.App == nil {
			continue
		}
		_, ar, _, _, _, ap := lc.App.Snapshot()
		_, tr, _, _, _, tpk := lc.Tp.Snapshot()
		// a key of 0 means "not told apart yet": the first bytes of streams of different targets may
		// coincide (they are distinct only among the sockets of one target), so a reader that has seen
		// one or two bytes may still hold several candidates. Only a settled identification is evidence.
		if ar > 0 && ap != 0 && ap != lc.Tp.TxKey {
			cs.R.Fail(rule, "connection %d: the application received the stream of another connection's target socket", lc.I)
		}
		if tr > 0 && tpk != 0 && tpk != lc.App.TxKey {
			cs.R.Fail(rule, "connection %d: the target received another application's stream", lc.I)
		}
	}
}

func carrierClass(c string) string {
	switch {
	case CarrierIsDNS(c):
		return "dns"
	case CarrierIsKCP(c):
		return "kcp"
	}
	return "stream"
}

// isClientCarrierLink reports whether ls is the client->server direction of the physical carrier.
func isClientCarrierLink(w *World, ls simrt.LinkState) bool {
	port := fmt.Sprintf(":%d", CarrierPort(w.Cfg.Carrier))
	switch {
	case hasPrefix(ls.Key, "tcp|"):
		return ls.FromTag == "dial" && hasSuffix(ls.Key, port)
	case hasPrefix(ls.Key, "unix|"):
		return ls.FromTag == "dial" && hasSuffix(ls.Key, fmt.Sprintf("sa-%d.sock", CarrierPort(w.Cfg.Carrier)))
	case ls.Key == "pipe|stdio-carrier":
		return ls.FromTag == "accept"
	}
	return false
}

func hasSuffix(s, suf string) bool { return len(s) >= len(suf) && s[len(s)-len(suf):] == suf }
func hasPrefix(s, pre string) bool { return len(s) >= len(pre) && s[:len(pre)] == pre }

// ClientCarrierConns returns the client-side endpoints of the physical stream carrier(s).
func ClientCarrierConns(w *World) []*simrt.Conn {
	var out []*simrt.Conn
	states := map[int]simrt.LinkState{}
	for _, ls := range w.R.Net.LinkStates() {
		states[ls.ID] = ls
	}
	for _, cn := range w.R.Net.Conns() {
		if ls, ok := states[cn.Out().ID]; ok && isClientCarrierLink(w, ls) {
			out = append(out, cn)
		}
	}
	return out
}
