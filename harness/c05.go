package verif

import (
	"fmt"
	"os"
	"strings"
	"time"
)

func init() { Scenarios["C05"] = scenarioC05 }

type c05cell struct {
	Carrier     string // tcp+tls, wss, starttls-tcp, starttls-ws, starttls-udp, starttls-dns, udp-secret
	ServerCert  string // good, wronghost, untrusted, expired, expiring-soon (valid for 200 s more), not-yet-valid (valid in 200 s)
	Insecure    bool   // -k
	ClientCert  string // "", good, foreign, impostor
	RequireCert bool
	Secret      string // udp-secret cells: equal, different, absent
}

func (c c05cell) String() string {
	if c.Carrier == "udp-secret" {
		return "udp-secret|" + c.Secret
	}
	return fmt.Sprintf("%s|srv=%s|k=%v|cli=%s|req=%v", c.Carrier, c.ServerCert, c.Insecure, orNone(c.ClientCert), c.RequireCert)
}

func orNone(s string) string {
	if s == "" {
		return "none"
	}
	return s
}

// C05Cells is the complete matrix of the property's quantifier.
func C05Cells() []c05cell {
	var out []c05cell
	// (starttls-udp-secret: the UDP carrier with an equal shared secret AND certificates - the secret encrypts
	// the datagrams, the certificates are still what authenticates the peers)
	for _, carrier := range []string{"tcp+tls", "wss", "starttls-tcp", "starttls-ws", "starttls-udp", "starttls-dns", "starttls-udp-secret"} {
		for _, sc := range []string{"good", "wronghost", "untrusted", "expired", "expiring-soon", "not-yet-valid"} {
			for _, k := range []bool{false, true} {
				for _, cc := range []string{"", "good", "foreign", "impostor"} {
					for _, req := range []bool{false, true} {
						out = append(out, c05cell{Carrier: carrier, ServerCert: sc, Insecure: k, ClientCert: cc, RequireCert: req})
					}
				}
			}
		}
	}
	for _, s := range []string{"equal", "different", "absent"} {
		out = append(out, c05cell{Carrier: "udp-secret", Secret: s})
	}
	return out
}

// c05expect is the admit/reject table written from the property text.
func c05expect(c c05cell) (admit bool, why string) {
	if c.Carrier == "udp-secret" {
		return c.Secret == "equal", "shared secret " + c.Secret
	}
	clientAdmits := c.Insecure || c.ServerCert == "good" || c.ServerCert == "expiring-soon"
	serverAdmits := !c.RequireCert || c.ClientCert == "good"
	switch {
	case !clientAdmits:
		return false, "server certificate is " + c.ServerCert + " and the client verifies"
	case !serverAdmits:
		return false, "server requires a client certificate of its CA, client presents " + orNone(c.ClientCert)
	}
	return true, "certificates acceptable to both sides"
}

func scenarioC05(r *Run) {
	c := r.Ch
	cells := C05Cells()
	cell := cells[r.Idx%len(cells)]
	r.Count("cell/" + cell.String())
	r.Info["cell"] = cell.String()
	r.Info["cells_total"] = len(cells)
	cfg := WorldCfg{}
	portOnly := false
	switch cell.Carrier {
	case "tcp+tls", "wss":
		cfg.Carrier = cell.Carrier
	case "starttls-tcp":
		cfg.Carrier = "tcp"
	case "starttls-ws":
		cfg.Carrier = "ws"
	case "starttls-udp":
		cfg.Carrier = "udp"
	case "starttls-dns":
		cfg.Carrier = "dns+udp"
	case "starttls-udp-secret":
		cfg.Carrier = "udp+pass"
	case "udp-secret":
		cfg.Carrier = "udp+pass"
		switch cell.Secret {
		case "different":
			cfg.ClientPassword = "wrong-secret"
		case "absent":
			cfg.ClientPassword = "-"
		}
	}
	if cell.Carrier != "udp-secret" {
		cfg.ServerCert = cell.ServerCert
		cfg.ClientInsecure = cell.Insecure
		cfg.ClientCA = "good"
		cfg.ClientCert = cell.ClientCert
		cfg.RequireClientCert = cell.RequireCert
		cfg.ServerCA = "good"
		// in one run of three the server reads certificate and key from files
		cfg.ServerCertFiles = c.Chance(1, 3, "server-cert-files")
		// the upstream is named by host name or by IP literal; the good certificate covers both
		cfg.UseHostName = c.Chance(1, 2, "upstream-by-name")
		r.Info["upstream_by_name"] = cfg.UseHostName
		if (cfg.Carrier == "tcp" || cfg.Carrier == "tcp+tls") && c.Chance(1, 4, "upstream-by-port-only") {
			// "tcp://:9000": the upstream has no host part, so there is no name a certificate could be matched
			// against - a client that verifies (no -k) cannot authenticate anybody and must refuse everybody
			cfg.UseHostName = false
			cfg.UsePortOnly = true
			portOnly = true
			r.Net.SetRedirect("tcp", fmt.Sprintf("0.0.0.0:%d", CarrierPort(cfg.Carrier)), fmt.Sprintf("%s:%d", ServerIP, CarrierPort(cfg.Carrier)))
			r.Count("upstreams_without_a_host_part")
		}
		r.Info["upstream_by_port_only"] = portOnly
		if cell.ServerCert == "good" {
			// "trusted and matching": the certificate names exactly what the upstream URL names
			if cell.Carrier == "starttls-dns" {
				// the host of a dns:// upstream is the tunnel domain
				cfg.ServerCert = "good-domain"
			} else if cfg.UseHostName {
				cfg.ServerCert = "good-name"
			} else {
				cfg.ServerCert = "good-ip"
			}
		}
	}
	// A decoy upstream listed first (sampled): it names another host and is unreachable, so the client
	// fails over to the real one. What the client demands of the real upstream must not depend on what it
	// tried before (the cell's expectation is unchanged).
	decoy := []string{"", "", "tcp+tls://other.test:9", "wss://other.test:9/ws/all", "tcp://other.test:9", "tcp+tls://10.9.9.9:9"}[c.Pick(6, "decoy-upstream")]
	if decoy != "" {
		cfg.PreUpstreams = []string{decoy}
	}
	r.Info["decoy_upstream_first"] = decoy
	cfg.Channels = []ChanCfg{{Name: "alpha", Target: "tcp://" + TargetIP + ":7001"}}
	lsn := LsnCfg{Channel: "alpha", Kind: "tcp", Addr: "127.0.0.1:6001"}
	cfg.Listeners = []LsnCfg{lsn}
	expect, why := c05expect(cell)
	if portOnly && !cell.Insecure && expect {
		expect, why = false, "the upstream has no host part: nothing the certificate could be matched against, and the client verifies"
	}
	r.Info["expect"] = map[bool]string{true: "admit", false: "reject"}[expect] + ": " + why

	w, err := BuildWorld(r, cfg)
	if err != nil {
		r.Fail("world-setup", "could not build world: %v", err)
		return
	}
	lc := &LConn{I: 0, TIdx: 0, Lsn: lsn, Mode: "active"}
	lc.PlanA = Partition(c, 64, "app-part")
	lc.PlanT = Partition(c, 64, "tgt-part")
	cs := NewConnSet(r, w, "app", []*LConn{lc})
	pol := &NetPolicy{ChunkBias: c.Pick(3, "chunk-bias")}
	extra := func() []Ev { return append(cs.OpenEv(nil), cs.PeerEvents()...) }
	goal := func() bool {
		cs.Assign()
		if !cs.AllOpened() {
			return false
		}
		if cs.Complete(lc, false) {
			return true
		}
		_, _, eof, rerr, _, _ := lc.App.Snapshot()
		return eof || rerr != nil
	}
	limit := 10 * time.Minute
	if cell.Carrier == "udp-secret" && !expect {
		limit = 3 * time.Minute
	}
	out := r.Drive(pol, goal, extra, 90*time.Second, limit)
	if out == Aborted {
		return
	}
	cs.Assign()
	established := cs.Complete(lc, false)
	targetGot := int64(0)
	for _, p := range w.Targets[0].Peers() {
		_, rc, _, _, _, _ := p.Snapshot()
		targetGot += rc
	}
	sig := "cell=" + cell.String()
	if (cell.ServerCert == "expiring-soon" || cell.ServerCert == "not-yet-valid") && r.SimElapsed() > 190*time.Second {
		// the validity boundary lies 200 s after the start: a run that took longer says nothing about it
		r.Count("time_boundary_unjudged")
		r.NonTriv = true
		return
	}
	switch {
	case expect && !established:
		r.FailSig("rejected-legitimate-peer", sig, "%s: cell %s (%s): the session must be established but the application was not served: %v", out, cell, why, cs.Describe())
	case !expect && (established || targetGot > 0 || len(w.Targets[0].Peers()) > 0):
		r.FailSig("admitted-unauthenticated-peer", sig, "cell %s must be rejected (%s) but the target accepted %d connection(s) and received %d application bytes", cell, why, len(w.Targets[0].Peers()), targetGot)
	default:
		r.NonTriv = true
		if expect {
			r.Count("admitted_as_expected")
		} else {
			r.Count("rejected_as_expected")
		}
	}
	if r.Failed() || cell.ServerCert == "expiring-soon" || cell.ServerCert == "not-yet-valid" || CarrierIsDNS(cfg.Carrier) || !c.Chance(1, 2, "second-attempt") {
		return
	}
	// ---- the same client again: an admitted session is lost first (carrier reset; server restart on the
	// datagram carriers); a rejected client simply gets the next local connection. Authentication is
	// demanded of every session, not only of the first one a client process makes.
	if established {
		lc.App.Do(Op{Kind: "close"})
		r.RunFor(3 * time.Second)
		cut := 0
		for _, cn := range r.Net.Conns() {
			if cn.Tag == "dial" && strings.HasSuffix(cn.Key, fmt.Sprintf(":%d", CarrierPort(cfg.Carrier))) {
				r.Net.Reset(cn)
				cut++
			}
		}
		if cut > 0 {
			r.Count("fault_carrier_reset")
			r.RunFor(time.Duration(1+c.Pick(10, "wait-s")) * time.Second)
		} else {
			if err := w.RestartServer(); err != nil {
				r.Fail("harness", "server restart: %v", err)
				return
			}
			r.Count("fault_server_restart")
			r.RunFor(95 * time.Second)
		}
	}
	if cfg.ServerCertFiles && c.Chance(1, 2, "certificate-files-renewed") {
		// the certificate and key files are renewed on disk while the server runs (same content, newer
		// modification time - what a certificate-renewal job leaves behind): whatever the server makes of it,
		// what it demands of its peers stays as configured
		for _, p := range pkiPaths(cfg.ServerCert) {
			if fi, err := os.Stat(p); err == nil {
				os.Chtimes(p, fi.ModTime().Add(time.Hour), fi.ModTime().Add(time.Hour))
			}
		}
		r.Count("certificate_files_renewed")
	}
	before := len(w.Targets[0].Peers())
	lc2 := &LConn{I: 1, TIdx: 0, Lsn: lsn, Mode: "active"}
	lc2.PlanA = Partition(c, 64, "app-part")
	lc2.PlanT = Partition(c, 64, "tgt-part")
	cs2 := NewConnSet(r, w, "app", []*LConn{lc2})
	extra2 := func() []Ev { return append(cs2.OpenEv(nil), cs2.PeerEvents()...) }
	goal2 := func() bool {
		cs2.Assign()
		if !cs2.AllOpened() {
			return false
		}
		if cs2.Complete(lc2, false) {
			return true
		}
		_, _, eof, rerr, _, _ := lc2.App.Snapshot()
		return eof || rerr != nil
	}
	out = r.Drive(pol, goal2, extra2, 90*time.Second, limit)
	if out == Aborted {
		return
	}
	cs2.Assign()
	established2 := cs2.Complete(lc2, false)
	sig += " second-attempt"
	switch {
	case expect && !established2:
		r.FailSig("rejected-legitimate-peer", sig, "%s: cell %s (%s): the first session was established and lost; the next one must be established too but the application was not served: %v", out, cell, why, cs2.Describe())
	case !expect && (established2 || len(w.Targets[0].Peers()) > before):
		r.FailSig("admitted-unauthenticated-peer", sig, "cell %s must be rejected (%s) on every attempt, but on the second one the target accepted %d connection(s)", cell, why, len(w.Targets[0].Peers())-before)
	case expect:
		r.Count("admitted_again_after_session_loss")
	default:
		r.Count("rejected_again_on_second_attempt")
	}
}
