package verif

import (
	"crypto/sha256"
	"encoding/hex"
	"encoding/json"
	"fmt"
	"os"
	"path/filepath"
	"runtime"
	"strings"
	"testing"
	"testing/cryptotest"
	"time"
)

// Spec is what the orchestrator asks a worker process to do.
type Spec struct {
	Property string   `json:"property"`
	Tier     string   `json:"tier"`
	Seed     uint64   `json:"seed"`
	Start    int      `json:"start"`
	Count    int      `json:"count"`
	Mode     string   `json:"mode"` // run | replay | shrink
	Vector   []uint32 `json:"vector,omitempty"`
	Rule     string   `json:"rule,omitempty"`
	Sig      string   `json:"sig,omitempty"`
	Out      string   `json:"out"`
	Samples  int      `json:"samples"`
	Budget   float64  `json:"budget_s"` // wall-clock budget for this worker (0 = none)
	Verbose  bool     `json:"verbose"`
}

// Result is one line of a worker's output file.
type Result struct {
	Type     string                 `json:"type"` // start | run | end
	Idx      int                    `json:"idx"`
	Viol     *Violation             `json:"viol,omitempty"`
	Digest   string                 `json:"digest,omitempty"`
	Steps    int                    `json:"steps,omitempty"`
	SimS     float64                `json:"sim_s,omitempty"`
	Stats    map[string]int         `json:"stats,omitempty"`
	Shape    string                 `json:"shape,omitempty"`
	NonTriv  bool                   `json:"nontrivial,omitempty"`
	Info     map[string]interface{} `json:"info,omitempty"`
	Events   []string               `json:"events,omitempty"`
	Head     []string               `json:"head,omitempty"`
	Vector   []uint32               `json:"vector,omitempty"`
	Leaked   int                    `json:"leaked,omitempty"`
	Hung     bool                   `json:"hung,omitempty"`
	Spins    []string               `json:"spins,omitempty"`
	WallMs   float64                `json:"wall_ms,omitempty"`
	Choices  int                    `json:"choices,omitempty"`
	LogLines []string               `json:"log,omitempty"`
}

func oneRun(t *testing.T, spec *Spec, idx int, vec []uint32, keepEvents bool) *Result {
	sc := Scenarios[spec.Property]
	if sc == nil {
		t.Fatalf("no scenario for %s", spec.Property)
	}
	r := &Run{Property: spec.Property, Tier: spec.Tier, Seed: spec.Seed, Idx: idx}
	if vec != nil {
		r.Ch = NewReplayChooser(vec)
	} else {
		r.Ch = NewChooser(spec.Seed, idx)
	}
	t0 := time.Now()
	leaked, hung := Execute(t, r, func(r *Run) {
		if spec.Verbose {
			r.hook.Capture = true
			r.FullLog = []string{}
		}
		sc(r)
	})
	res := &Result{Type: "run", Idx: idx, Viol: r.Viol, Digest: r.Digest(), Steps: r.Steps, Stats: r.Stats,
		NonTriv: r.NonTriv, Leaked: leaked, Hung: hung, Spins: r.Spins, Choices: len(r.Ch.Rec)}
	res.WallMs = float64(time.Since(t0).Microseconds()) / 1000
	if r.simEnd > 0 {
		res.SimS = r.simEnd.Seconds()
	}
	h := sha256.Sum256([]byte(strings.Join(r.Shape, ",")))
	res.Shape = hex.EncodeToString(h[:8])
	if keepEvents || r.Viol != nil {
		res.Info = r.Info
		res.Events = r.Events
		res.Head = r.Head
		res.Vector = r.Ch.Rec
		if spec.Verbose {
			res.LogLines = r.hook.lines
			if p := os.Getenv("VERIF_EVENTLOG"); p != "" {
				os.WriteFile(p, []byte(strings.Join(r.FullLog, "\n")), 0644)
			}
		}
	}
	return res
}

func TestWorker(t *testing.T) {
	path := os.Getenv("VERIF_SPEC")
	if path == "" {
		t.Skip("VERIF_SPEC not set")
	}
	data, err := os.ReadFile(path)
	if err != nil {
		t.Fatal(err)
	}
	var spec Spec
	if err := json.Unmarshal(data, &spec); err != nil {
		t.Fatal(err)
	}
	if runtime.GOMAXPROCS(0) != 1 {
		t.Fatalf("worker must run with GOMAXPROCS=1")
	}
	// fixtures are generated from a fixed random stream so that every worker
	// process has the same certificates
	cryptotest.SetGlobalRandom(t, 0x5eed)
	GetPKI()
	// The operating system's trust store of the simulated hosts holds the foreign CA (and nothing else):
	// "untrusted" in the properties means "does not chain to the *configured* CA", and a certificate
	// from a root the OS happens to trust is the realistic instance of it. Must be in place before the
	// process loads system roots for the first time.
	os.Setenv("SSL_CERT_FILE", pkiFile("system-roots.pem", GetPKI().ForeignCA.CertPEM))
	os.Setenv("SSL_CERT_DIR", filepath.Dir(pkiFile("system-roots.pem", ""))+"/no-such-dir")

	out, err := os.OpenFile(spec.Out, os.O_CREATE|os.O_WRONLY|os.O_APPEND, 0644)
	if err != nil {
		t.Fatal(err)
	}
	defer out.Close()
	emit := func(r *Result) {
		b, _ := json.Marshal(r)
		out.Write(append(b, '\n'))
	}
	start := time.Now()
	switch spec.Mode {
	case "run", "":
		for i := spec.Start; i < spec.Start+spec.Count; i++ {
			if spec.Budget > 0 && time.Since(start).Seconds() > spec.Budget {
				break
			}
			emit(&Result{Type: "start", Idx: i})
			res := oneRun(t, &spec, i, nil, i-spec.Start < spec.Samples)
			emit(res)
			if res.Hung {
				// a bubble that does not end keeps burning CPU; give up this process
				emit(&Result{Type: "end", Idx: i + 1})
				os.Exit(3)
			}
		}
		emit(&Result{Type: "end", Idx: spec.Start + spec.Count})
	case "replay":
		emit(&Result{Type: "start", Idx: spec.Start})
		res := oneRun(t, &spec, spec.Start, spec.Vector, true)
		emit(res)
		emit(&Result{Type: "end", Idx: spec.Start})
	case "shrink":
		shrink(t, &spec, emit)
	default:
		t.Fatalf("unknown mode %q", spec.Mode)
	}
	fmt.Fprintf(os.Stderr, "worker done in %.1fs\n", time.Since(start).Seconds())
}

// shrink minimises a failing choice vector: delete chunks, zero entries,
// lower entries, while the same rule of the same property still fires.
func shrink(t *testing.T, spec *Spec, emit func(*Result)) {
	best := append([]uint32(nil), spec.Vector...)
	start := time.Now()
	budget := spec.Budget
	if budget == 0 {
		budget = 60
	}
	fails := func(v []uint32) (*Result, bool) {
		res := oneRun(t, spec, spec.Start, v, true)
		if res.Hung {
			emit(res)
			os.Exit(3)
		}
		return res, res.Viol != nil && res.Viol.Rule == spec.Rule && res.Viol.Sig == spec.Sig
	}
	bestRes, ok := fails(best)
	if !ok {
		emit(&Result{Type: "end", Idx: -1})
		return
	}
	// trailing choices that were never consumed do not matter
	if bestRes.Choices < len(best) {
		best = best[:bestRes.Choices]
	}
	tries := 0
	improved := true
	for improved && time.Since(start).Seconds() < budget {
		improved = false
		// 1. delete chunks
		for size := len(best) / 2; size >= 1 && time.Since(start).Seconds() < budget; size /= 2 {
			for i := 0; i+size <= len(best) && time.Since(start).Seconds() < budget; {
				cand := append(append([]uint32(nil), best[:i]...), best[i+size:]...)
				tries++
				if res, ok := fails(cand); ok {
					best, bestRes = cand, res
					if res.Choices < len(best) {
						best = best[:res.Choices]
					}
					improved = true
				} else {
					i += size
				}
			}
		}
		// 2. zero / lower entries
		for i := 0; i < len(best) && time.Since(start).Seconds() < budget; i++ {
			if best[i] == 0 {
				continue
			}
			for _, v := range []uint32{0, best[i] / 2, best[i] - 1} {
				if v >= best[i] {
					continue
				}
				cand := append([]uint32(nil), best...)
				cand[i] = v
				tries++
				if res, ok := fails(cand); ok {
					best, bestRes = cand, res
					if res.Choices < len(best) {
						best = best[:res.Choices]
					}
					improved = true
					break
				}
			}
		}
	}
	bestRes.Vector = best
	bestRes.Type = "shrunk"
	bestRes.Stats["shrink_tries"] = tries
	emit(bestRes)
	emit(&Result{Type: "end", Idx: spec.Start})
}
