package verif

import (
	"fmt"
	"net"
	"runtime"
	"strconv"
	"strings"
	"testing/synctest"
	"time"

	sdns "github.com/bokysan/socketace/v2/internal/streams/dns"
	"github.com/bokysan/socketace/v2/internal/streams/dns/commands"
	dnsutil "github.com/bokysan/socketace/v2/internal/streams/dns/util"
	mdns "github.com/miekg/dns"
	"golang.org/x/net/dns/dnsmessage"
)

func init() { Scenarios["C12"] = scenarioC12 }

var c12types = []uint16{10, 65000, mdns.TypeTXT, mdns.TypeSRV, mdns.TypeMX, mdns.TypeCNAME, mdns.TypeAAAA, mdns.TypeA, mdns.TypeANY, mdns.TypeNS, mdns.TypeSOA, mdns.TypePTR, 0, 65535}

// genQueryName builds the question name of a generated query.
func genQueryName(c *Chooser, uid uint16, captured []string) (string, string) {
	letters := "vlsmrtzycoVLSMRTZYCOabxq019-"
	b36 := "0123456789abcdefghijklmnopqrstuvwxyz"
	user := func() string {
		switch c.Pick(9, "uid-kind") {
		case 6:
			// signs and other non-base-36 characters a lenient number parser might accept
			return []string{"-1", "-z", "+1", "+z", "-0", "1-", "1e", "0x", "_1", " 1"}[c.Pick(10, "odd-uid")]
		case 7:
			// any two printable characters
			pr := "!#$%&'*+,-/0123456789:<=>?ABCXYZ[]^_`abcxyz{|}~"
			return string([]byte{pr[c.Pick(len(pr), "p1")], pr[c.Pick(len(pr), "p2")]})
		case 8:
			return "zz" // 1295: the largest id two base-36 digits can name
		case 0:
			return string([]byte{b36[uid/36%36], b36[uid%36]})
		case 1:
			return "zz"
		case 2:
			return "a"
		case 3:
			return "\\255\\200"
		case 4:
			return "ZZ"
		}
		return string([]byte{b36[c.Pick(36, "u1")], b36[c.Pick(36, "u2")]})
	}
	body := func() string {
		switch c.Pick(7, "body-kind") {
		case 0:
			return ""
		case 1:
			return "a"
		case 2:
			return "ab"
		case 3:
			return strings.Repeat("a", 1+c.Pick(58, "body-len"))
		case 4:
			// maximum-length labels
			return strings.Repeat("b", 63) + "." + strings.Repeat("c", 63) + "." + strings.Repeat("d", 40)
		case 5:
			// high bytes and escapes
			return "\\200\\255\\000\\046\\092x"
		}
		// size fields of the probe commands: 0, 1, 2^32-1 and friends, in base32-ish and raw forms
		return []string{"aaaaaaa", "7777777", "h777777q", "\\255\\255\\255\\255", "aaaaaaaaaaaaaaaa"}[c.Pick(5, "sizes")]
	}
	switch c.Pick(12, "name-kind") {
	case 0:
		return ".", "root"
	case 1:
		return "mail." + Domain + ".", "ordinary-lookup"
	case 2:
		return Domain + ".", "bare-domain"
	case 3:
		return "www.example.com.", "other-zone"
	case 4:
		return string(letters[c.Pick(len(letters), "cmd")]) + "." + Domain + ".", "one-char"
	case 5:
		return string(letters[c.Pick(len(letters), "cmd")]) + "a." + Domain + ".", "two-char"
	case 6:
		return string(letters[c.Pick(len(letters), "cmd")]) + "ab." + Domain + ".", "three-char"
	case 7:
		if len(captured) > 0 {
			// mutate a real query of the live session
			n := []byte(captured[c.Pick(len(captured), "captured")])
			for k := 0; k < 1+c.Pick(3, "flips"); k++ {
				i := c.Pick(len(n), "flip-pos")
				switch c.Pick(3, "flip-op") {
				case 0:
					if n[i] != '.' && n[i] != '\\' {
						n[i] ^= byte(1 << uint(c.Pick(7, "bit")))
						if n[i] == '.' || n[i] == '\\' || n[i] < 0x21 || n[i] > 0x7e {
							n[i] = 'q'
						}
					}
				case 1:
					if i > 0 && n[i] != '.' && n[i-1] != '.' && n[i] != '\\' {
						n = append(n[:i], n[i+1:]...)
					}
				default:
					if len(n) > 12 {
						j := 5 + c.Pick(len(n)-11, "cut")
						if d := strings.Index(string(n), "."+Domain); d > 0 && j < d {
							n = append(n[:j], n[d:]...)
						}
					}
				}
			}
			return string(n), "mutated-live-query"
		}
		fallthrough
	case 8, 9, 10:
		return string(letters[c.Pick(len(letters), "cmd")]) + "x1y" + user() + body() + "." + Domain + ".", "structured"
	}
	// command + cache chars only (no user id although the command needs one)
	return string(letters[c.Pick(len(letters), "cmd")]) + "abc." + Domain + ".", "header-only"
}

// carriesUserId reports whether the tunnel would read identifier uid out of this query name (command
// letter, three cache characters, two base-36 characters, case-insensitive, dots ignored).
func carriesUserId(name string, uid uint16) bool {
	flat := strings.Replace(name, ".", "", -1)
	if len(flat) < 6 {
		return false
	}
	u, err := strconv.ParseUint(flat[4:6], 36, 16)
	return err == nil && uint16(u) == uid
}

// genAnswer rewrites a genuine answer into a hostile one (same id and question, so the client accepts it).
func genAnswer(c *Chooser, orig *mdns.Msg) (*mdns.Msg, string) {
	m := orig.Copy()
	name := "x." + Domain + "."
	if len(m.Question) > 0 {
		name = m.Question[0].Name
	}
	hdr := func(t uint16) mdns.RR_Header {
		return mdns.RR_Header{Name: name, Rrtype: t, Class: mdns.ClassINET, Ttl: 1}
	}
	switch c.Pick(19, "answer-kind") {
	case 17, 18:
		// name-typed records whose target is the tunnel domain itself (the zone apex), or the domain with no
		// separating dot before it, in either case of letters: there are no data labels to strip
		apex := []string{Domain + ".", strings.ToUpper(Domain) + ".", "aa" + Domain + ".", "a" + Domain + ".", "." + Domain + ".", "a." + Domain + ".", strings.ToUpper("ab." + Domain + ".")}[c.Pick(7, "apex-target")]
		switch c.Pick(4, "apex-type") {
		case 0:
			m.Answer = []mdns.RR{&mdns.MX{Hdr: hdr(mdns.TypeMX), Preference: 10, Mx: apex}}
		case 1:
			m.Answer = []mdns.RR{&mdns.SRV{Hdr: hdr(mdns.TypeSRV), Priority: 10, Target: apex}}
		case 2:
			m.Answer = []mdns.RR{&mdns.CNAME{Hdr: hdr(mdns.TypeCNAME), Target: apex}}
		default:
			m.Answer = []mdns.RR{&mdns.MX{Hdr: hdr(mdns.TypeMX), Preference: 10, Mx: apex}, &mdns.MX{Hdr: hdr(mdns.TypeMX), Preference: 20, Mx: "b." + Domain + "."}}
		}
		return m, "name-record-targets-zone-apex"
	case 14, 15, 16:
		// a correctly wrapped payload of another command: command letter (either case) + sub-letter + body;
		// the client asked something else and may not have the parameters this command's decoder expects
		if len(orig.Question) > 0 {
			letters := "vlsmrtzycoVLSMRTZYCOeExq"
			body := []string{"", "o", "oAAAA", "h", "oabcdefghijklmnopqrstuvwxyz234567", "\x00\xff\xff\xff\xff", "o\x00", "yyyy"}[c.Pick(8, "foreign-body")]
			data := []byte(string(letters[c.Pick(len(letters), "foreign-cmd")]) + body)
			rep := new(mdns.Msg)
			rep.SetReply(orig)
			rep.Id = orig.Id
			rep.Question = orig.Question
			if dnsutil.WrapDnsResponse(rep, data, dnsmessage.Type(orig.Question[0].Qtype), Domain) == nil && len(rep.Answer) > 0 {
				return rep, "well-wrapped-foreign-command"
			}
		}
		m.Answer = nil
		return m, "no-records"
	case 0:
		m.Answer = nil
		return m, "no-records"
	case 1:
		m.Answer = nil
		m.Truncated = true
		return m, "truncated-empty"
	case 2:
		m.Answer = []mdns.RR{&mdns.NULL{Hdr: hdr(10), Data: "x"}}
		return m, "null-shorter-than-order-tag"
	case 3:
		m.Answer = []mdns.RR{&mdns.NULL{Hdr: hdr(10), Data: ""}}
		return m, "null-empty"
	case 4:
		m.Answer = []mdns.RR{&mdns.TXT{Hdr: hdr(mdns.TypeTXT), Txt: []string{""}}}
		return m, "txt-empty-string"
	case 5:
		m.Answer = []mdns.RR{&mdns.TXT{Hdr: hdr(mdns.TypeTXT), Txt: []string{"a"}}}
		return m, "txt-one-char"
	case 6:
		m.Answer = []mdns.RR{&mdns.CNAME{Hdr: hdr(mdns.TypeCNAME), Target: "."}}
		return m, "cname-root"
	case 7:
		m.Answer = []mdns.RR{&mdns.CNAME{Hdr: hdr(mdns.TypeCNAME), Target: "a."}}
		return m, "cname-one-char"
	case 8:
		m.Answer = []mdns.RR{&mdns.A{Hdr: hdr(mdns.TypeA), A: net.IPv4(1, 2, 3, 4)}, &mdns.MX{Hdr: hdr(mdns.TypeMX), Preference: 1, Mx: "mail.other.org."}, &mdns.AAAA{Hdr: hdr(mdns.TypeAAAA), AAAA: net.ParseIP("::1")}}
		return m, "mixed-types-foreign-names"
	case 9:
		m.Answer = []mdns.RR{&mdns.SRV{Hdr: hdr(mdns.TypeSRV), Priority: 1, Target: "."}, &mdns.MX{Hdr: hdr(mdns.TypeMX), Preference: 2, Mx: "."}}
		return m, "srv-mx-root-targets"
	case 10:
		m.Rcode = []int{mdns.RcodeServerFailure, mdns.RcodeNameError, mdns.RcodeRefused, mdns.RcodeNotImplemented}[c.Pick(4, "rcode")]
		m.Answer = nil
		return m, "error-rcode"
	case 11:
		m.Question = nil
		return m, "no-question-section"
	case 12:
		// drop or duplicate records of the genuine answer
		if len(m.Answer) > 0 {
			if c.Chance(1, 2, "dup") {
				m.Answer = append(m.Answer, m.Answer[0])
			} else {
				m.Answer = m.Answer[1:]
			}
		}
		return m, "records-dropped-or-duplicated"
	}
	// genuine record type, payload cut to 0-3 bytes
	if len(m.Answer) > 0 {
		switch v := m.Answer[0].(type) {
		case *mdns.NULL:
			k := c.Pick(4, "cut")
			if len(v.Data) > k {
				v.Data = v.Data[:k]
			}
			m.Answer = m.Answer[:1]
		}
	}
	return m, "genuine-type-cut-short"
}

// lyingAnswer decodes a genuine tunnel answer with the client's own parameters and re-encodes it with
// field values no honest server sends (sizes far larger than the body, identifiers out of range).
func lyingAnswer(c *Chooser, dc *sdns.ClientDnsConnection, orig *mdns.Msg) (out *mdns.Msg, kind string) {
	if dc.Serializer.Downstream.Encoder == nil {
		return nil, "" // before the downstream codec is settled the client decodes with explicit parameters we do not know
	}
	defer func() {
		// this is the harness using the codec API on a message of unknown kind, not the client under test
		if p := recover(); p != nil {
			out, kind = nil, ""
		}
	}()
	resp, err := dc.Serializer.DecodeDnsResponse(orig)
	if err != nil || resp == nil {
		return nil, ""
	}
	big := []uint32{0, 1, 1 << 20, 1 << 28, 1 << 31, 1<<32 - 1}
	switch t := resp.(type) {
	case *commands.TestDownstreamFragmentSizeResponse:
		t.FragmentSize = big[c.Pick(len(big), "lying-size")]
		if len(t.Data) > 12 {
			t.Data = t.Data[:1+c.Pick(12, "lying-body")]
		}
		kind = "probe-answer-size-field-lies"
	case *commands.VersionResponse:
		t.UserId = uint16(1296 + c.Pick(64000, "lying-uid"))
		t.ServerVersion = big[c.Pick(len(big), "lying-version")]
		kind = "version-answer-out-of-range"
	case *commands.TestDownstreamEncoderResponse:
		t.Data = make([]byte, c.Pick(3, "lying-len"))
		kind = "codec-check-answer-short"
	case *commands.TestUpstreamEncoderResponse:
		t.Data = make([]byte, c.Pick(3, "lying-len"))
		kind = "upstream-check-answer-short"
	case *commands.PacketResponse:
		if t.Packet != nil {
			t.Packet.SeqNo = uint16(c.Pick(65536, "lying-seq"))
		}
		t.LastAckedSeqNo = uint16(c.Pick(65536, "lying-ack"))
		kind = "packet-answer-wild-numbers"
	default:
		return nil, ""
	}
	m, err := dc.Serializer.EncodeDnsResponse(resp, orig)
	if err != nil || m == nil {
		return nil, ""
	}
	m.Id = orig.Id
	return m, kind
}

// c12clientHandshake replaces answers while the client's handshake is running (version, codec and
// fragment-size probes): the client may give up, but it must survive and do bounded work per answer.
func c12clientHandshake(r *Run, dc *sdns.ClientDnsConnection, hsDone *bool, hsErr *error) {
	c := r.Ch
	nmsg := 1 + c.Pick(12, "messages")
	hostile := 0
	var kinds []string
	var msBefore, msAfter runtime.MemStats
	pol := &NetPolicy{Whole: true}
	pol.DgramHook = func(seq int) bool {
		if hostile >= nmsg {
			return false
		}
		d := r.Net.PeekDgram(seq)
		if d == nil || d.To.String() != dc.LocalAddr().String() || !c.Chance(1, 4, "replace-answer") {
			return false
		}
		m := new(mdns.Msg)
		if m.Unpack(d.Data) != nil {
			return false
		}
		var bad *mdns.Msg
		kind := ""
		if c.Chance(1, 2, "lying-fields") {
			bad, kind = lyingAnswer(c, dc, m)
		}
		if bad == nil {
			bad, kind = genAnswer(c, m)
		}
		outb, err := bad.Pack()
		if err != nil {
			return false
		}
		r.Net.TakeDgram(seq)
		hostile++
		kinds = append(kinds, kind)
		r.Count("hostile_answers")
		r.Count("hostile_handshake_answers")
		r.AddShape("hs-ans:" + kind)
		r.Logf("handshake answer replaced by hostile one (%s)", kind)
		synctest.Wait()
		runtime.ReadMemStats(&msBefore)
		r.Net.Inject("udp", d.From, d.To, outb)
		synctest.Wait() // the client has digested the answer (or parked): bounded work
		runtime.ReadMemStats(&msAfter)
		if delta := msAfter.TotalAlloc - msBefore.TotalAlloc; delta > 64<<20 {
			r.FailSig("unbounded-allocation", "side=client kind="+kind, "one hostile answer during the handshake (%s) made the client allocate %d bytes", kind, delta)
		}
		return true
	}
	out := r.Drive(pol, func() bool { return *hsDone }, nil, 5*time.Minute, 60*time.Minute)
	r.Info["message_kinds"] = kinds
	if out == Aborted {
		return
	}
	r.Info["handshake_outcome"] = fmt.Sprintf("%v done=%v err=%v", out, *hsDone, *hsErr)
	if hostile > 0 {
		r.NonTriv = true
		r.Count("handshakes_survived_hostile_answers")
	}
}

func scenarioC12(r *Run) {
	c := r.Ch
	addr := fmt.Sprintf("%s:%d", ServerIP, 5353)
	var accepted chan net.Conn
	var err error
	if c.Chance(1, 4, "queries-during-start-up") {
		// the endpoint is being started (a restart, say) while somebody is already sending it queries - a client
		// of the previous instance still polling its session: they are refused, ignored or answered, never fatal
		started := false
		go func() {
			_, accepted, err = startDnsServer(r, addr)
			started = true
		}()
		for i := 0; i < 40 && !started; i++ {
			q := new(mdns.Msg)
			q.Id = uint16(100 + i)
			q.RecursionDesired = true
			name := []string{"caaaa0abcdefgh", "vaaaaabcde", "yaaaa", "zzzzz"}[i%4]
			q.Question = []mdns.Question{{Name: name + "." + Domain + ".", Qtype: 10, Qclass: mdns.ClassINET}}
			if data, perr := q.Pack(); perr == nil {
				r.Net.Inject("udp", &net.UDPAddr{IP: net.ParseIP("10.6.6.7"), Port: 4500}, &net.UDPAddr{IP: net.ParseIP(ServerIP), Port: 5353}, data)
				r.Count("queries_during_start_up")
			}
			r.RunFor(100 * time.Millisecond)
		}
		for i := 0; i < 100 && !started; i++ {
			r.RunFor(100 * time.Millisecond)
		}
		if !started {
			r.Fail("world-setup", "dns server did not start")
			return
		}
	} else {
		_, accepted, err = startDnsServer(r, addr)
	}
	if err != nil {
		r.Fail("world-setup", "dns server: %v", err)
		return
	}
	dc, err := dialDnsClient(r, addr, ClientIP)
	if err != nil {
		r.Fail("world-setup", "dns client: %v", err)
		return
	}
	r.OnCleanup(func() { dc.Close() })
	var hsErr error
	hsDone := false
	go func() {
		hsErr = dc.Handshake()
		hsDone = true
	}()
	side := []string{"server", "server", "client", "client-handshake"}[c.Pick(4, "side")]
	r.Info["attacked_side"] = side
	if side == "client-handshake" {
		c12clientHandshake(r, dc, &hsDone, &hsErr)
		return
	}
	var captured []string
	capture := func(seq int) bool {
		if d := r.Net.PeekDgram(seq); d != nil && d.To.String() == addr && len(captured) < 32 {
			m := new(mdns.Msg)
			if m.Unpack(d.Data) == nil && len(m.Question) == 1 {
				captured = append(captured, m.Question[0].Name)
			}
		}
		return false
	}
	clean := &NetPolicy{Whole: true, DgramHook: capture}
	out := r.Drive(clean, func() bool { return hsDone }, nil, 3*time.Minute, 40*time.Minute)
	if !hsDone || hsErr != nil {
		r.FailSig("handshake-on-clean-path", "", "%s: handshake failed on a clean path: %v", out, hsErr)
		return
	}
	srv := serverConnFor(accepted, dc)
	if srv == nil {
		r.Fail("world-setup", "server did not accept the session")
		return
	}
	uid := dc.SimUserId()
	keyC, keyS := AppKey(r.Seed, 0), TargetKey(r.Seed, 0, 0)
	pc := NewPeer(r, "dns-client", "app", dc, keyC, []Candidate{keyS})
	ps := NewPeer(r, "dns-server", "target", srv, keyS, []Candidate{keyC})
	r.registerPeer(pc)
	r.registerPeer(ps)
	if side == "client" {
		// Whoever can replace answers can put any bytes into the (unauthenticated) tunnel stream: for the
		// client the property demands survival, not integrity against forged answers.
		pc.noVerify = true
	}
	na, ns := 200+c.Pick(1500, "client-bytes"), 200+c.Pick(3000, "server-bytes")
	pc.Script = Partition(c, na, "client-part")
	ps.Script = Partition(c, ns, "server-part")

	foreign := &net.UDPAddr{IP: net.ParseIP("10.6.6.6"), Port: 4444}
	clientAddr := dc.LocalAddr()
	nmsg := 1 + c.Pick(12, "messages")
	var kinds []string
	injected := 0
	filled := false
	hostile := 0
	pol := &NetPolicy{Whole: true}
	pol.DgramHook = func(seq int) bool {
		capture(seq)
		if side != "client" || hostile >= nmsg {
			return false
		}
		d := r.Net.PeekDgram(seq)
		if d == nil || d.To.String() != clientAddr.String() || !c.Chance(1, 3, "replace-answer") {
			return false
		}
		m := new(mdns.Msg)
		if m.Unpack(d.Data) != nil {
			return false
		}
		var bad *mdns.Msg
		kind := ""
		if c.Chance(1, 3, "lying-fields") {
			bad, kind = lyingAnswer(c, dc, m)
		}
		if bad == nil {
			bad, kind = genAnswer(c, m)
		}
		outb, err := bad.Pack()
		if err != nil {
			return false
		}
		r.Net.TakeDgram(seq)
		hostile++
		kinds = append(kinds, kind)
		r.Count("hostile_answers")
		r.AddShape("ans:" + kind)
		r.Logf("answer replaced by hostile one (%s)", kind)
		var b4, aft runtime.MemStats
		synctest.Wait()
		runtime.ReadMemStats(&b4)
		r.Net.Inject("udp", d.From, d.To, outb)
		synctest.Wait()
		runtime.ReadMemStats(&aft)
		if delta := aft.TotalAlloc - b4.TotalAlloc; delta > 64<<20 {
			r.FailSig("unbounded-allocation", "side=client kind="+kind, "one hostile answer (%s) made the client allocate %d bytes", kind, delta)
		}
		return true
	}
	var msBefore, msAfter runtime.MemStats
	extra := func() []Ev {
		var evs []Ev
		if e, ok := pc.NextEv(); ok {
			evs = append(evs, e)
		}
		if e, ok := ps.NextEv(); ok {
			evs = append(evs, e)
		}
		if side == "server" && injected < nmsg {
			evs = append(evs, Ev{Kind: "fault:inject", Desc: "inject a generated query", key: "i", Do: func() {
				injected++
				if !filled && c.Chance(1, 20, "fill-user-table") {
					// a resource limit: the session table (1296 slots) is filled by version requests from as
					// many foreign addresses; the established session must not notice
					filled = true
					vname := ""
					for _, n := range captured {
						if len(n) > 0 && (n[0] == 'v' || n[0] == 'V') {
							vname = n
							break
						}
					}
					if vname != "" {
						q := new(mdns.Msg)
						q.RecursionDesired = true
						q.Question = []mdns.Question{{Name: vname, Qtype: 10, Qclass: mdns.ClassINET}}
						var b4, aft runtime.MemStats
						synctest.Wait()
						runtime.ReadMemStats(&b4)
						g0 := runtime.NumGoroutine()
						for k := 0; k < 1320; k++ {
							q.Id = uint16(k + 1)
							data, err := q.Pack()
							if err != nil {
								break
							}
							from := &net.UDPAddr{IP: net.IPv4(10, 7, byte(k/250), byte(1+k%250)), Port: 5000 + k%100}
							r.Net.Inject("udp", from, &net.UDPAddr{IP: net.ParseIP(ServerIP), Port: 5353}, data)
							if k%64 == 63 {
								synctest.Wait()
								for _, fd := range r.Net.Flight() {
									if strings.HasPrefix(fd.To, "10.7.") {
										r.Net.TakeDgram(fd.Seq) // answers to nobody
									}
								}
							}
						}
						synctest.Wait()
						for _, fd := range r.Net.Flight() {
							if strings.HasPrefix(fd.To, "10.7.") {
								r.Net.TakeDgram(fd.Seq)
							}
						}
						runtime.ReadMemStats(&aft)
						kinds = append(kinds, "user-table-filled")
						r.Count("user_table_fills")
						r.AddShape("q:fill")
						r.Logf("1320 version requests from as many addresses (session table full)")
						if delta := aft.TotalAlloc - b4.TotalAlloc; delta > 512<<20 {
							r.FailSig("unbounded-allocation", "kind=user-table-filled", "1320 version requests made the server allocate %d bytes", delta)
						}
						// every one of them was answered or ignored - none may still be occupying a handler. 1296 get
						// a session, the others a refusal; then 60 more, all refused: the number of goroutines must
						// not follow the number of requests.
						g1 := runtime.NumGoroutine()
						for k := 0; k < 60; k++ {
							q.Id = uint16(2000 + k)
							data, err := q.Pack()
							if err != nil {
								break
							}
							from := &net.UDPAddr{IP: net.IPv4(10, 7, 9, byte(1+k)), Port: 6000 + k}
							r.Net.Inject("udp", from, &net.UDPAddr{IP: net.ParseIP(ServerIP), Port: 5353}, data)
						}
						synctest.Wait()
						for _, fd := range r.Net.Flight() {
							if strings.HasPrefix(fd.To, "10.7.") {
								r.Net.TakeDgram(fd.Seq)
							}
						}
						g2 := runtime.NumGoroutine()
						r.Info["goroutines(before fill/after fill/after 60 more)"] = fmt.Sprintf("%d/%d/%d", g0, g1, g2)
						if g2-g1 > 30 || g1-g0 > 30 {
							r.FailSig("unbounded-goroutines", "kind=user-table-filled", "version requests against a full session table leave goroutines behind: %d before the fill, %d after 1320 requests, %d after 60 more (stacks: %s)", g0, g1, g2, truncate(strings.Join(GoroutineStacks([]string{"newUser", "onMessage", "ServeDNS"}), " | "), 1500))
						}
						return
					}
				}
				name, kind := genQueryName(c, uid, captured)
				q := new(mdns.Msg)
				q.Id = uint16(c.Pick(65536, "id"))
				q.RecursionDesired = true
				q.Question = []mdns.Question{{Name: name, Qtype: c12types[c.Pick(len(c12types), "qtype")], Qclass: []uint16{mdns.ClassINET, mdns.ClassCHAOS, mdns.ClassANY}[c.Pick(3, "qclass")]}}
				if c.Chance(1, 6, "question-count") {
					// a DNS query need not carry exactly one question
					switch c.Pick(4, "questions") {
					case 0:
						q.Question = nil
						kind += "+no-question"
					default:
						extraNames := []string{".", "a.", Domain + ".", "www." + Domain + ".", name}
						for k := 1 + c.Pick(3, "more-questions"); k > 0; k-- {
							qq := mdns.Question{Name: extraNames[c.Pick(len(extraNames), "more-name")], Qtype: c12types[c.Pick(len(c12types), "qtype")], Qclass: mdns.ClassINET}
							if c.Chance(1, 2, "prepend") {
								q.Question = append([]mdns.Question{qq}, q.Question...)
							} else {
								q.Question = append(q.Question, qq)
							}
						}
						kind += "+multi-question"
					}
				}
				data, err := q.Pack()
				if err != nil {
					r.Count("unpackable_generated_name")
					return
				}
				from := net.Addr(foreign)
				if c.Chance(1, 3, "from-session-address") && !carriesUserId(name, uid) {
					// From the session's own address only what cannot be mistaken for the client's own
					// traffic: a well-formed request with the live identifier from the live address is, for
					// the server, the client speaking (it may legitimately change options or carry data), so
					// "the session is not disturbed" is not owed for it. Such names go out from the foreign
					// address, where the address check must turn them away.
					from = clientAddr
				}
				kinds = append(kinds, kind)
				r.Logf("inject query %q (%d questions) from %s (%s)", truncate(name, 80), len(q.Question), from, kind)
				r.AddShape("q:" + kind)
				synctest.Wait()
				runtime.ReadMemStats(&msBefore)
				r.Net.Inject("udp", from, &net.UDPAddr{IP: net.ParseIP(ServerIP), Port: 5353}, data)
				synctest.Wait() // the handler has run to completion (or parked): bounded work
				runtime.ReadMemStats(&msAfter)
				r.Count("injected_queries")
				if delta := msAfter.TotalAlloc - msBefore.TotalAlloc; delta > 64<<20 {
					r.FailSig("unbounded-allocation", "kind="+kind, "one injected query (%q, %d questions, %s) made the server allocate %d bytes", truncate(name, 120), len(q.Question), kind, delta)
				}
			}})
		}
		return evs
	}
	done := func() bool {
		cs, cr, _, _, _, _ := pc.Snapshot()
		ss, sr, _, _, _, _ := ps.Snapshot()
		all := len(pc.Script) == 0 && len(ps.Script) == 0 && pc.Idle() && ps.Idle() && cr == ss && sr == cs
		if side == "server" {
			return all && injected >= nmsg
		}
		return all
	}
	out = r.Drive(pol, done, extra, 3*time.Minute, 60*time.Minute)
	r.Info["message_kinds"] = kinds
	if out == Aborted {
		if r.Viol != nil && r.Viol.Rule == "stream-integrity" {
			r.Viol.Rule = "session-disturbed"
			r.Viol.Sig = "side=" + side
		}
		return
	}
	if out != GoalMet {
		cs, cr, _, _, _, _ := pc.Snapshot()
		ss, sr, _, _, _, _ := ps.Snapshot()
		pc.mu.Lock()
		e1 := pc.TxErr
		pc.mu.Unlock()
		if side == "client" && hostile > 0 {
			// a hostile *answer* replaces a genuine one: for the session this is a lost answer plus garbage.
			// It must not crash the client (process-level) and must not corrupt the stream; a failed Write is tolerated.
			r.Count("transfer_incomplete_after_hostile_answers")
			r.NonTriv = true
			return
		}
		r.FailSig("session-disturbed", "side="+side, "%s: with %d stray messages injected (%v) the established session did not complete its transfer: client wrote %d/%d (server read %d, err %v), server wrote %d/%d (client read %d)", out, injected, kinds, cs, na, sr, e1, ss, ns, cr)
		return
	}
	if dc.SimUserId() != uid {
		r.FailSig("session-disturbed", "side="+side, "the session identifier changed from %d to %d", uid, dc.SimUserId())
		return
	}
	if id, ok := sdns.SimServerUserId(srv); ok && id != uid {
		r.FailSig("session-disturbed", "side="+side, "the server-side session identifier is %d, the client's %d", id, uid)
		return
	}
	r.NonTriv = true
	r.Count("sessions_intact")

	// ---- a path that repeats a datagram: one data query that is ahead of the next expected packet (a gap in
	// front of it) arrives again and again from the session's own address. It is the client speaking, so the
	// session's stream is not judged any more; what the server keeps for the session must stay bounded by the
	// number of distinct packets, not grow with the number of copies.
	if side != "server" || !c.Chance(1, 2, "repeated-future-packet") {
		return
	}
	nextOut, nextIn := dc.SimNextSeq()
	ahead := uint16(1 + c.Pick(100, "ahead"))
	payload := make([]byte, 20+c.Pick(80, "repeat-bytes"))
	prfFill(0x12c0de, 0, payload)
	req := &commands.PacketRequest{UserId: uid, LastAckedSeqNo: nextIn - 1, Packet: &dnsutil.Packet{SeqNo: nextOut + ahead, Data: payload}}
	msg, err := dc.Serializer.EncodeDnsRequest(req)
	if err != nil {
		r.Count("unpackable_generated_name")
		return
	}
	data, err := msg.Pack()
	if err != nil {
		r.Count("unpackable_generated_name")
		return
	}
	pc.noVerify, ps.noVerify = true, true
	copies := 200 + c.Pick(400, "copies")
	var b4, aft runtime.MemStats
	synctest.Wait()
	runtime.ReadMemStats(&b4)
	for i := 0; i < copies; i++ {
		r.Net.Inject("udp", clientAddr, &net.UDPAddr{IP: net.ParseIP(ServerIP), Port: 5353}, data)
		if i%16 == 15 {
			r.RunFor(50 * time.Millisecond)
		}
	}
	r.RunFor(2 * time.Second)
	runtime.ReadMemStats(&aft)
	r.CountN("repeated_future_packets", copies)
	held, ok := sdns.SimServerHeldPackets(srv)
	if ok && held > 2 {
		r.FailSig("unbounded-retention", "kind=repeated-future-packet", "%d copies of one data query (packet #%d, %d ahead of the next expected one) left the server holding %d packets for the session", copies, nextOut+ahead, ahead, held)
		return
	}
	if delta := aft.TotalAlloc - b4.TotalAlloc; delta > 64<<20 {
		r.FailSig("unbounded-allocation", "kind=repeated-future-packet", "%d copies of one data query made the server allocate %d bytes", copies, delta)
		return
	}
	if ok {
		r.Count("retention_bounded")
	}
}
