package verif

import (
	"bytes"
	"fmt"
	"net"
	"strings"
	"testing/synctest"
	"time"

	sdns "github.com/bokysan/socketace/v2/internal/streams/dns"
	"github.com/bokysan/socketace/v2/internal/streams/dns/commands"
	dnsutil "github.com/bokysan/socketace/v2/internal/streams/dns/util"
	mdns "github.com/miekg/dns"
)

func init() { Scenarios["C13"] = scenarioC13 }

type c13sess struct {
	idx     int
	gen     int // how many times this slot of the scenario has been (re)opened
	ip      string
	port    int // source port of the last session of this slot (reused for the next one in some runs)
	dc      *sdns.ClientDnsConnection
	srv     net.Conn
	pc, ps  *Peer
	uid     uint16
	state   string // none, open, closed, silent
	history []string
	wantC   int64
	wantS   int64
}

// c13stalledAcceptor: the server application is busy and does not call Accept for a while. Meanwhile session A
// opens and closes again and session B opens (it is given A's identifier). When the application finally accepts,
// it gets two connections: they must be two different sessions, B's data must arrive on exactly one of them, and
// closing the handle of the closed session A must not end the live session B.
func c13stalledAcceptor(r *Run) {
	c := r.Ch
	addr := fmt.Sprintf("%s:%d", ServerIP, 5353)
	gate := make(chan struct{})
	_, accepted, err := startDnsServerGated(r, addr, gate)
	if err != nil {
		r.Fail("world-setup", "dns server: %v", err)
		return
	}
	r.Info["history"] = "stalled-acceptor"
	pol := &NetPolicy{Whole: true}
	open := func(ip string) *sdns.ClientDnsConnection {
		dc, err := dialDnsClient(r, addr, ip)
		if err != nil {
			r.Fail("world-setup", "dns client: %v", err)
			return nil
		}
		var hsErr error
		done := false
		go func() {
			hsErr = dc.Handshake()
			done = true
		}()
		out := r.Drive(pol, func() bool { return done }, nil, 3*time.Minute, 40*time.Minute)
		if !done || hsErr != nil {
			r.FailSig("handshake-on-clean-path", "history=stalled-acceptor", "%s: handshake failed on a clean path while the acceptor was stalled: %v", out, hsErr)
			return nil
		}
		return dc
	}
	closers := 1 + c.Pick(3, "sessions-closed-before-accept")
	for i := 0; i < closers; i++ {
		a := open(fmt.Sprintf("10.0.2.%d", 60+i))
		if a == nil {
			return
		}
		go a.Close()
		r.RunFor(time.Duration(1+c.Pick(5, "after-close-s")) * time.Second)
	}
	b := open("10.0.2.80")
	if b == nil {
		return
	}
	r.OnCleanup(func() { b.Close() })
	close(gate)
	var pool []net.Conn
	for i := 0; i < 20; i++ {
		r.RunFor(200 * time.Millisecond)
		for more := true; more; {
			select {
			case cn := <-accepted:
				pool = append(pool, cn)
			default:
				more = false
			}
		}
	}
	sig := "history=stalled-acceptor"
	for i := range pool {
		for j := i + 1; j < len(pool); j++ {
			if pool[i] == pool[j] {
				r.FailSig("session-handed-out-twice", sig, "Accept returned the same connection twice (entries %d and %d of %d): the application would serve one session from two handlers", i, j, len(pool))
				return
			}
		}
	}
	// B's data arrives on exactly one accepted connection
	got := make([][]byte, len(pool))
	for i, cn := range pool {
		i, cn := i, cn
		go func() {
			buf := make([]byte, 4096)
			for {
				n, err := cn.Read(buf)
				got[i] = append(got[i], buf[:n]...)
				if err != nil {
					return
				}
			}
		}()
	}
	send := func(key uint64, n int) []byte {
		p := make([]byte, n)
		prfFill(key, 0, p)
		go b.Write(p)
		return p
	}
	arrived := func(p []byte) int {
		at := -1
		total := 0
		for i := range got {
			total += len(got[i])
			if bytes.HasSuffix(got[i], p) {
				at = i
			}
		}
		_ = total
		return at
	}
	p1 := send(0xc13a, 50+c.Pick(400, "b-bytes"))
	out := r.Drive(pol, func() bool { return arrived(p1) >= 0 }, nil, 2*time.Minute, 20*time.Minute)
	live := arrived(p1)
	if live < 0 {
		r.FailSig("live-session-data-lost", sig, "%s: the bytes written by the live session did not arrive intact on any of the %d accepted connections (received %v bytes)", out, len(pool), lens(got))
		return
	}
	for i := range got {
		if i != live && len(got[i]) > 0 {
			r.FailSig("cross-session-delivery", sig, "accepted connection %d (not the live session's) delivered %d bytes", i, len(got[i]))
			return
		}
	}
	// the application closes the handles of the sessions that were closed before it accepted them
	for i, cn := range pool {
		if i != live {
			cn.Close()
		}
	}
	r.RunFor(2 * time.Second)
	p2 := send(0xc13b, 50+c.Pick(400, "b-bytes-2"))
	out = r.Drive(pol, func() bool { return arrived(p2) >= 0 }, nil, 2*time.Minute, 20*time.Minute)
	if arrived(p2) != live {
		r.FailSig("live-session-terminated", sig, "%s: after the application closed the handles of the %d sessions that had closed before being accepted, the live session no longer delivers (received %v bytes)", out, len(pool)-1, lens(got))
		return
	}
	r.NonTriv = true
	r.Count("stalled_acceptor_histories")
}

func lens(b [][]byte) []int {
	var out []int
	for _, x := range b {
		out = append(out, len(x))
	}
	return out
}

func scenarioC13(r *Run) {
	c := r.Ch
	if c.Chance(1, 8, "stalled-acceptor") {
		c13stalledAcceptor(r)
		return
	}
	addr := fmt.Sprintf("%s:%d", ServerIP, 5353)
	lnr, accepted, err := startDnsServer(r, addr)
	if err != nil {
		r.Fail("world-setup", "dns server: %v", err)
		return
	}
	k := 2 + c.Pick(3, "sessions")
	sess := make([]*c13sess, k)
	for i := range sess {
		sess[i] = &c13sess{idx: i, ip: fmt.Sprintf("10.0.2.%d", 10+i), state: "none"}
	}
	var pool []net.Conn // accepted server-side connections not yet bound
	silenced := map[string]bool{}
	pol := &NetPolicy{Whole: true}
	// short outages during a handshake: after the n-th answer to a client, everything from and to it is
	// lost for a few seconds (keyed by the client's IP)
	type outage struct {
		after, seen int
		length      time.Duration
		until       time.Time
	}
	outages := map[string]*outage{}
	tableFull := func() bool { return len(lnr.SimLiveConns()) >= 1296 }
	var versionQuery *mdns.Msg // a genuine version request, as seen on the wire
	pol.DgramHook = func(seq int) bool {
		d := r.Net.PeekDgram(seq)
		if d == nil {
			return false
		}
		from, to := d.From.String(), d.To.String()
		if versionQuery == nil && to == addr {
			m := new(mdns.Msg)
			if m.Unpack(d.Data) == nil && len(m.Question) == 1 && len(m.Question[0].Name) > 0 && (m.Question[0].Name[0] == 'v' || m.Question[0].Name[0] == 'V') {
				versionQuery = m
			}
		}
		for ip, o := range outages {
			if !(strings.HasPrefix(from, ip+":") || strings.HasPrefix(to, ip+":")) {
				continue
			}
			if !o.until.IsZero() && time.Now().Before(o.until) {
				r.Net.DropDgram(seq)
				r.Count("fault_dgram_loss")
				return true
			}
			if strings.HasPrefix(to, ip+":") && o.until.IsZero() {
				o.seen++
				if o.seen == o.after {
					o.until = time.Now().Add(o.length)
					r.Count("fault_handshake_outage")
					r.Logf("outage of %v for %s after its answer #%d", o.length, ip, o.seen)
				}
			}
		}
		for ip := range silenced {
			if strings.HasPrefix(from, ip+":") || strings.HasPrefix(to, ip+":") {
				r.Net.DropDgram(seq)
				r.Count("fault_dgram_loss")
				return true
			}
		}
		return false
	}
	drainOnce := func() {
		for {
			select {
			case cn := <-accepted:
				pool = append(pool, cn)
			default:
				return
			}
		}
	}
	// the accept goroutine hands connections over through a bounded channel: keep taking until it has nothing left
	drain := func() {
		for {
			n := len(pool)
			drainOnce()
			synctest.Wait()
			drainOnce()
			if len(pool) == n {
				return
			}
		}
	}
	var ops []string
	sigHist := func() string {
		h := strings.Join(ops, ",")
		reuse := "reuse=false"
		seen := map[uint16]int{}
		for _, s := range sess {
			for _, e := range s.history {
				if strings.HasPrefix(e, "open:") {
					var id int
					fmt.Sscanf(e, "open:%d", &id)
					seen[uint16(id)]++
				}
			}
		}
		for _, n := range seen {
			if n > 1 {
				reuse = "reuse=true"
			}
		}
		long := "jump30=false"
		if strings.Contains(h, "jump31m") || strings.Contains(h, "jump40m") {
			long = "jump30=true"
		}
		return reuse + " " + long
	}

	// openMany opens the listed sessions. One session: the ordinary sequential case. Several: their
	// handshakes run at the same time - the driver lets datagrams of different clients arrive back to
	// back (Burst) and every lock operation of the code under test is a seeded scheduling point, so
	// that the server's handlers interleave at lock granularity.
	type pending struct {
		s    *c13sess
		dc   *sdns.ClientDnsConnection
		err  error
		done bool
		// a short outage was planned inside this handshake: the path was not clean
		outage bool
	}
	type retiredConn struct {
		conn net.Conn
		desc string
	}
	var retired []retiredConn
	openMany := func(list []*c13sess) bool {
		var pend []*pending
		for _, s := range list {
			s.gen++
			if s.srv != nil {
				// the server application still holds the connection object of the slot's previous session
				retired = append(retired, retiredConn{conn: s.srv, desc: fmt.Sprintf("session %d generation %d (id %d)", s.idx, s.gen-1, s.uid)})
				s.srv = nil
			}
			samePort := 0
			if c.Chance(1, 3, "new-address") {
				s.ip = fmt.Sprintf("10.0.2.%d", 50+10*s.idx+s.gen)
			} else if s.port != 0 && s.state == "closed" && c.Chance(1, 2, "same-source-port") {
				// the new session comes from exactly the address of the old one (a client that reuses its
				// source port, or clients behind one resolver)
				samePort = s.port
				r.Count("sessions_from_a_reused_address")
			}
			delete(silenced, s.ip)
			r.Net.SourcePort = samePort
			dc, err := dialDnsClient(r, addr, s.ip)
			r.Net.SourcePort = 0
			if err != nil {
				r.Fail("world-setup", "dns client: %v", err)
				return false
			}
			r.OnCleanup(func() { dc.Close() })
			p := &pending{s: s, dc: dc}
			delete(outages, s.ip)
			if c.Chance(1, 2, "handshake-outage") {
				outages[s.ip] = &outage{after: 1 + c.Pick(6, "outage-after-answer"), length: time.Duration(1500+c.Pick(3000, "outage-ms")) * time.Millisecond}
				p.outage = true
			}
			pend = append(pend, p)
			go func() {
				p.err = dc.Handshake()
				p.done = true
			}()
		}
		p2 := pol
		if len(list) > 1 {
			q := *pol
			q.Burst = 4
			p2 = &q
			r.YieldsOn("yield-seed")
			r.Count("concurrent_opens")
		}
		// (the table may be full when a version request is refused and empty again when the batch is judged -
		// the once-a-minute prune retires the silent sessions of a filled table all at once - so fullness is
		// sampled at every driver step while the batch runs)
		wasFull := tableFull()
		out := r.Drive(p2, func() bool {
			wasFull = wasFull || tableFull()
			for _, p := range pend {
				if !p.done {
					return false
				}
			}
			return true
		}, nil, 3*time.Minute, 30*time.Minute)
		r.YieldsOff()
		how := "sequential"
		if len(list) > 1 {
			how = "concurrent"
		}
		for _, p := range pend {
			if p.done && p.err == nil {
				p.s.uid = p.dc.SimUserId()
			}
		}
		// (1) distinct identifiers among live sessions, including those opened in the same batch
		for i, p := range pend {
			if !p.done || p.err != nil {
				continue
			}
			for _, o := range sess {
				if o != p.s && (o.state == "open" || o.state == "silent") && o.uid == p.s.uid {
					r.FailSig("duplicate-session-id", sigHist()+" open="+how, "session %d was given identifier %d, which live session %d holds (history %v)", p.s.idx, p.s.uid, o.idx, ops)
					return false
				}
			}
			for _, q := range pend[:i] {
				if q.done && q.err == nil && q.s.uid == p.s.uid {
					r.FailSig("duplicate-session-id", sigHist()+" open="+how, "sessions %d and %d, opened at the same time, were both given identifier %d (history %v)", q.s.idx, p.s.idx, p.s.uid, ops)
					return false
				}
			}
		}
		for _, p := range pend {
			if p.outage && p.done && p.err != nil {
				// the path was not clean, so the handshake may legitimately have given up - but never because
				// the server disowns a session it has just created
				if es := p.err.Error(); strings.Contains(es, "BADCONN") || strings.Contains(es, "BADUSER") {
					r.FailSig("live-session-terminated", sigHist()+" open="+how, "session %d, seconds old, was disowned by the server during its handshake (%v) after history %v", p.s.idx, p.err, ops)
					return false
				}
				r.Count("handshake_gave_up_under_outage")
				p.s.state = "none"
				who := p.dc.LocalAddr().String()
				go p.dc.Close() // (its farewell to the server needs the driver to deliver datagrams)
				r.RunFor(20 * time.Second)
				// the server may have accepted the abandoned session (recognised by the client's address):
				// it is not part of the history
				drain()
				kept := pool[:0]
				for _, cn := range pool {
					if cn.RemoteAddr() != nil && cn.RemoteAddr().String() == who {
						cn.Close()
						continue
					}
					kept = append(kept, cn)
				}
				pool = kept
				continue
			}
			if p.done && p.err != nil && (tableFull() || wasFull && strings.Contains(p.err.Error(), "VFUL")) {
				// every identifier is taken by a live session: refusing a new one is what the server must do
				r.Count("refused_because_table_full")
				p.s.state = "none"
				go p.dc.Close()
				r.RunFor(20 * time.Second)
				continue
			}
			if !p.done || p.err != nil {
				r.FailSig("handshake-on-clean-path", sigHist()+" open="+how, "%s: session %d could not be opened on a clean path after history %v: %v", out, p.s.idx, ops, p.err)
				return false
			}
		}
		drain()
		for _, p := range pend {
			if p.err != nil {
				continue
			}
			s := p.s
			s.dc = p.dc
			s.srv = nil
			if ua, ok := p.dc.LocalAddr().(*net.UDPAddr); ok {
				s.port = ua.Port
			}
			for i := len(pool) - 1; i >= 0; i-- { // the most recently accepted connection with that identifier
				if id, ok := sdns.SimServerUserId(pool[i]); ok && id == s.uid {
					s.srv = pool[i]
					pool = append(pool[:i], pool[i+1:]...)
					break
				}
			}
			if s.srv == nil {
				r.FailSig("live-session-terminated", sigHist()+" open="+how, "the client's handshake for session %d succeeded with identifier %d, but the server has no accepted connection with that identifier (history %v)", s.idx, s.uid, ops)
				return false
			}
			keyC, keyS := AppKey(r.Seed, 10*s.idx+s.gen), TargetKey(r.Seed, s.idx, s.gen)
			s.pc = NewPeer(r, fmt.Sprintf("c%d.%d", s.idx, s.gen), "app", s.dc, keyC, []Candidate{keyS})
			s.ps = NewPeer(r, fmt.Sprintf("s%d.%d", s.idx, s.gen), "target", s.srv, keyS, []Candidate{keyC})
			r.registerPeer(s.pc)
			r.registerPeer(s.ps)
			s.wantC, s.wantS = 0, 0
			s.state = "open"
			s.history = append(s.history, fmt.Sprintf("open:%d", s.uid))
			r.Count("sessions_opened")
		}
		return true
	}
	openSession := func(s *c13sess) bool { return openMany([]*c13sess{s}) }

	// transfer moves a few bytes both ways on every listed session; all must complete.
	transfer := func(which []*c13sess, why string) bool {
		for _, s := range which {
			na, ns := 1+c.Pick(300, "client-bytes"), 1+c.Pick(600, "server-bytes")
			s.pc.Script = append(s.pc.Script, Partition(c, na, "client-part")...)
			s.ps.Script = append(s.ps.Script, Partition(c, ns, "server-part")...)
			s.wantC += int64(na)
			s.wantS += int64(ns)
		}
		extra := func() []Ev {
			var evs []Ev
			for _, s := range which {
				if e, ok := s.pc.NextEv(); ok {
					evs = append(evs, e)
				}
				if e, ok := s.ps.NextEv(); ok {
					evs = append(evs, e)
				}
			}
			return evs
		}
		done := func() bool {
			for _, s := range which {
				cs, cr, _, _, _, _ := s.pc.Snapshot()
				ss, sr, _, _, _, _ := s.ps.Snapshot()
				if !(cs == s.wantC && ss == s.wantS && cr == s.wantS && sr == s.wantC) {
					return false
				}
			}
			return true
		}
		out := r.Drive(pol, done, extra, 2*time.Minute, 20*time.Minute)
		if out == Aborted {
			if r.Viol != nil && r.Viol.Rule == "stream-integrity" {
				r.Viol.Rule = "foreign-data-in-session"
				r.Viol.Sig = sigHist()
			}
			return false
		}
		if out != GoalMet {
			var det []string
			for _, s := range which {
				cs, cr, _, cerr, _, _ := s.pc.Snapshot()
				ss, sr, _, _, _, _ := s.ps.Snapshot()
				s.pc.mu.Lock()
				te := s.pc.TxErr
				s.pc.mu.Unlock()
				det = append(det, fmt.Sprintf("[session %d id %d: client wrote %d/%d read %d/%d (write err %v, read err %v, closed=%v); server wrote %d/%d read %d/%d]", s.idx, s.uid, cs, s.wantC, cr, s.wantS, te, cerr, s.dc.Closed(), ss, s.wantS, sr, s.wantC))
			}
			r.FailSig("live-session-terminated", sigHist(), "%s (%s): a session that had been exchanging data continuously stopped working; history %v; %v", out, why, ops, det)
			return false
		}
		return true
	}
	live := func() []*c13sess {
		var l []*c13sess
		for _, s := range sess {
			if s.state == "open" {
				l = append(l, s)
			}
		}
		return l
	}

	// spoof sends a well-formed tunnel request carrying the victim's identifier from a foreign address
	// (the attacker knows the victim's negotiated parameters) and returns the decoded answer.
	spoof := func(v *c13sess, fromVictimAddr bool) {
		var req commands.Request
		kind := ""
		seq := uint16(c.Pick(65536, "spoof-seq"))
		ack := uint16(c.Pick(65536, "spoof-ack"))
		if c.Chance(2, 3, "spoof-expected-seq") {
			// worst case: exactly the sequence number the server expects next from the victim, and an
			// acknowledgement of everything the server has sent (which would discard unread data)
			nextOut, nextIn := v.dc.SimNextSeq()
			seq = nextOut + uint16(c.Pick(2, "spoof-seq-delta"))
			ack = nextIn + uint16(c.Pick(3, "spoof-ack-delta")) - 1
		}
		junk := make([]byte, 1+c.Pick(40, "junk-len"))
		prfFill(0xbadbad, 0, junk)
		switch c.Pick(5, "spoof-kind") {
		case 0:
			req, kind = &commands.PacketRequest{UserId: v.uid, LastAckedSeqNo: ack, Packet: &dnsutil.Packet{SeqNo: seq, Data: junk}}, "packet-with-data"
		case 1:
			req, kind = &commands.PacketRequest{UserId: v.uid, LastAckedSeqNo: ack}, "poll-with-ack"
		case 2:
			t := true
			req, kind = &commands.SetOptionsRequest{UserId: v.uid, Closed: &t}, "close"
		case 3:
			req, kind = &commands.TestDownstreamFragmentSizeRequest{UserId: v.uid, FragmentSize: 100}, "fragment-probe"
		default:
			f := uint32(1 + c.Pick(50, "frag"))
			req, kind = &commands.SetOptionsRequest{UserId: v.uid, DownstreamFragmentSize: &f}, "set-fragment-size"
		}
		msg, err := v.dc.Serializer.EncodeDnsRequest(req)
		if err != nil {
			return
		}
		msg.Id = uint16(c.Pick(65536, "spoof-id"))
		data, err := msg.Pack()
		if err != nil {
			return
		}
		from := net.Addr(&net.UDPAddr{IP: net.ParseIP("10.6.6.6"), Port: 4000 + c.Pick(100, "spoof-port")})
		where := "foreign-address"
		if fromVictimAddr {
			from = v.dc.LocalAddr()
			where = "session-address"
		}
		// a socket at the spoofer's address receives the answer
		var answer *mdns.Msg
		sock, serr := r.Net.BindFrom("udp", from.String(), nil)
		synctest.Wait()
		r.Net.Inject("udp", from, &net.UDPAddr{IP: net.ParseIP(ServerIP), Port: 5353}, data)
		ops = append(ops, "spoof:"+kind+"@"+where)
		r.Logf("spoof %s against session %d (id %d, state %s) from %s", kind, v.idx, v.uid, v.state, where)
		r.AddShape("spoof:" + kind)
		r.Count("spoofed_messages")
		synctest.Wait()
		if serr == nil {
			for _, fd := range r.Net.Flight() {
				if fd.To == from.String() {
					if d := r.Net.TakeDgram(fd.Seq); d != nil {
						m := new(mdns.Msg)
						if m.Unpack(d.Data) == nil {
							answer = m
						}
					}
				}
			}
			sock.Close()
		}
		if answer != nil && !fromVictimAddr {
			resp, derr := v.dc.Serializer.DecodeDnsResponse(answer)
			isErr := false
			if derr == nil {
				switch t := resp.(type) {
				case *commands.ErrorResponse:
					isErr = t.Err != nil
				case *commands.PacketResponse:
					isErr = t.Err != nil
					if t.Err == nil && t.Packet != nil && len(t.Packet.Data) > 0 {
						r.FailSig("data-disclosed-to-spoofer", sigHist(), "a %s from a foreign address carrying the identifier of session %d (%s) was answered with %d bytes of that session's data", kind, v.idx, v.state, len(t.Packet.Data))
						return
					}
				case *commands.SetOptionsResponse:
					isErr = t.Err != nil
				case *commands.TestDownstreamFragmentSizeResponse:
					isErr = t.Err != nil
				}
			}
			if derr == nil && !isErr {
				r.FailSig("spoofed-message-accepted", sigHist(), "a %s from a foreign address carrying the identifier of session %d (%s) was answered without an error", kind, v.idx, v.state)
				return
			}
			r.Count("spoofs_rejected")
		}
	}

	// ---- the history
	nops := 3 + c.Pick(10, "ops")
	if !openSession(sess[0]) {
		return
	}
	ops = append(ops, "open0")
	if versionQuery != nil && c.Chance(1, 6, "fill-session-table") {
		// "all open/close/expire/reopen histories of identifier slots": every identifier of the server's
		// table (1296) is taken by version requests from as many addresses; those sessions never speak
		// again, expire after five minutes and are remembered as retired for thirty
		for k := 0; k < 1300; k++ {
			q := versionQuery.Copy()
			q.Id = uint16(k + 1)
			data, err := q.Pack()
			if err != nil {
				break
			}
			from := &net.UDPAddr{IP: net.IPv4(10, 7, byte(k/250), byte(1+k%250)), Port: 5000 + k%100}
			r.Net.Inject("udp", from, &net.UDPAddr{IP: net.ParseIP(ServerIP), Port: 5353}, data)
			if k%50 == 49 {
				synctest.Wait()
				drain()
				for _, fd := range r.Net.Flight() {
					if strings.HasPrefix(fd.To, "10.7.") {
						r.Net.TakeDgram(fd.Seq)
					}
				}
			}
		}
		synctest.Wait()
		drain()
		for _, fd := range r.Net.Flight() {
			if strings.HasPrefix(fd.To, "10.7.") {
				r.Net.TakeDgram(fd.Seq)
			}
		}
		ops = append(ops, "fill-table")
		r.Count("session_table_filled")
	}
	for step := 0; step < nops && !r.Failed(); step++ {
		s := sess[c.Pick(k, "op-session")]
		op := c.Pick(10, "op")
		switch {
		case op <= 1 && (s.state == "none" || s.state == "closed" || s.state == "silent"):
			batch := []*c13sess{s}
			if c.Chance(1, 2, "open-others-too") {
				for _, o := range sess {
					if o != s && (o.state == "none" || o.state == "closed" || o.state == "silent") {
						batch = append(batch, o)
					}
				}
			}
			name := "open"
			for _, o := range batch {
				name += fmt.Sprint(o.idx)
			}
			if c.Chance(1, 2, "align-with-prune-tick") {
				// the server prunes stale sessions once a minute: open just before a tick
				el := r.SimElapsed()
				next := (el/time.Minute + 1) * time.Minute
				if wait := next - el - time.Duration(200+c.Pick(2800, "before-tick-ms"))*time.Millisecond; wait > 0 {
					r.RunFor(wait)
				}
				name += "@tick"
				r.Count("opens_aligned_with_prune_tick")
			}
			ops = append(ops, name)
			if !openMany(batch) {
				return
			}
		case op <= 3 && s.state == "open":
			ops = append(ops, fmt.Sprintf("close%d", s.idx))
			s.dc.Close()
			s.state = "closed"
			s.history = append(s.history, "close")
			r.RunFor(2 * time.Second)
			r.Count("sessions_closed")
		case op == 4 && s.state == "open" && s.port != 0 && len(live()) >= 2 && c.Chance(1, 2, "reordered-pipelining"):
			// The session's client pipelines two data packets and the path reorders them: packet #n+1 arrives,
			// then another session moves data, then packet #n. (The harness sends the two packets itself, from the
			// session's own address, with the true continuation of the client's stream; the session's own client
			// is out of step afterwards and is silenced.) The server side must read exactly the client's bytes.
			var other *c13sess
			for _, o := range live() {
				if o != s {
					other = o
				}
			}
			ops = append(ops, fmt.Sprintf("reordered%d", s.idx))
			nextOut, nextIn := s.dc.SimNextSeq()
			sent, _, _, _, _, _ := s.pc.Snapshot()
			_, had, _, _, _, _ := s.ps.Snapshot()
			a, b := 3+c.Pick(20, "first-packet-bytes"), 30+c.Pick(60, "second-packet-bytes")
			p0, p1 := make([]byte, a), make([]byte, b)
			prfFill(s.pc.TxKey, sent, p0)
			prfFill(s.pc.TxKey, sent+int64(a), p1)
			mk := func(seq uint16, data []byte) []byte {
				req := &commands.PacketRequest{UserId: s.uid, LastAckedSeqNo: nextIn - 1, Packet: &dnsutil.Packet{SeqNo: seq, Data: data}}
				msg, err := s.dc.Serializer.EncodeDnsRequest(req)
				if err != nil {
					return nil
				}
				out, _ := msg.Pack()
				return out
			}
			from := &net.UDPAddr{IP: net.ParseIP(s.ip), Port: s.port}
			to := &net.UDPAddr{IP: net.ParseIP(ServerIP), Port: 5353}
			d1, d0 := mk(nextOut+1, p1), mk(nextOut, p0)
			if d1 == nil || d0 == nil {
				break
			}
			r.Net.Inject("udp", from, to, d1)
			r.RunFor(time.Second)
			if !transfer([]*c13sess{other}, "between two reordered packets of session "+fmt.Sprint(s.idx)) {
				return
			}
			r.Net.Inject("udp", from, to, d0)
			r.RunFor(3 * time.Second)
			if r.Failed() {
				return
			}
			if _, got, _, _, _, _ := s.ps.Snapshot(); got != had+int64(a+b) {
				r.FailSig("reordered-packets-not-delivered", sigHist(), "session %d: two pipelined packets (%d and %d bytes) arrived in reverse order; the server side read %d of their %d bytes", s.idx, a, b, got-had, a+b)
				return
			}
			silenced[s.ip] = true
			s.state = "silent"
			s.history = append(s.history, "silent")
			r.Count("reordered_pipelined_packets")
		case op == 4 && s.state == "open":
			ops = append(ops, fmt.Sprintf("silent%d", s.idx))
			silenced[s.ip] = true
			s.state = "silent"
			s.history = append(s.history, "silent")
			r.Count("sessions_silenced")
		case op == 5 || op == 6:
			d := []time.Duration{time.Minute, 6 * time.Minute, 31 * time.Minute, 40 * time.Minute}[c.Pick(4, "jump")]
			ops = append(ops, "jump"+strings.Replace(d.String(), "0s", "", 1))
			r.Logf("clock runs for %v (live sessions keep polling)", d)
			r.RunFor(d)
			r.Count("fault_clock_jump")
		case op == 9 && len(retired) > 0:
			// the server application closes, late, the connection object of a session that ended long ago
			i := c.Pick(len(retired), "late-close")
			ops = append(ops, "lateclose")
			r.Logf("the server application closes the connection of %s", retired[i].desc)
			retired[i].conn.Close()
			retired = append(retired[:i], retired[i+1:]...)
			r.RunFor(time.Second)
			r.Count("late_closes_of_retired_connections")
		case op == 7 || op == 8:
			if s.state != "none" {
				spoof(s, s.state == "closed" && c.Chance(1, 2, "from-old-address"))
				if r.Failed() {
					return
				}
			}
		default:
			// nothing but traffic
		}
		// every session that has been exchanging data all the time must still work
		if l := live(); len(l) > 0 {
			if !transfer(l, "after "+ops[len(ops)-1]) {
				return
			}
		}
	}
	r.Info["history"] = ops
	r.NonTriv = true
	r.CountN("history_ops", len(ops))
}
