package verif

import (
	"fmt"
	"runtime"
	"sort"
	"testing/synctest"
	"time"

	"github.com/bokysan/socketace/v2/internal/simrt"
)

// Ev is one enabled event the driver may choose.
type Ev struct {
	Kind string // data, fin, dgram, app, fault:<kind>, stall-release
	Desc string
	Do   func()
	// for sorting: deterministic order independent of map iteration
	key string
}

// NetPolicy says what the driver may do to the network in this run.
type NetPolicy struct {
	ChunkBias   int  // 0: mostly whole, 1: mixed, 2: mostly tiny
	Whole       bool // always deliver everything that is in flight (no choice consumed)
	Reorder     bool // datagrams may overtake each other
	LossBudget  int  // datagrams that may still be dropped
	DupBudget   int  // datagrams that may still be duplicated
	DelayBudget int  // deliberate sleeps while events are pending
	MinGap      int  // datagram deliveries that must pass fault-free after a datagram fault (isolated-loss class)
	sinceFault  int
	MaxDelay    time.Duration
	// Burst > 1: one decision may perform up to Burst network events back to
	// back, before the code under test gets to run: simultaneous arrival, so
	// that handlers of different peers are runnable at the same time.
	Burst int
	// FilterLink lets a scenario hide links from the generic delivery events
	// (e.g. a stalled peer's link is never delivered).
	FilterLink func(ls simrt.LinkState) bool
	// DgramHook lets a scenario intercept a datagram about to be delivered
	// (middlebox). Return true if it consumed the datagram.
	DgramHook func(seq int) bool
	// OnlyInOrderFlows restricts reordering to between flows.
	Boundaries []int
}

var defaultBoundaries = []int{1, 2, 7, 8, 9, 4095, 4096, 4097, 32639, 32640, 32641, 32648, 32767, 32768, 32769, 65535, 65536, 65537}

// NetEvents enumerates the enabled network events in a deterministic order.
func (r *Run) NetEvents(p *NetPolicy) []Ev {
	var evs []Ev
	for _, ls := range r.Net.LinkStates() {
		if ls.Dead || ls.Rst {
			continue
		}
		if p.FilterLink != nil && !p.FilterLink(ls) {
			continue
		}
		ls := ls
		if ls.Inflight > 0 {
			evs = append(evs, Ev{Kind: "data", Desc: ls.Name, key: fmt.Sprintf("a%08d", ls.ID), Do: func() { r.deliverData(p, ls) }})
		} else if ls.FinPending {
			evs = append(evs, Ev{Kind: "fin", Desc: ls.Name, key: fmt.Sprintf("b%08d", ls.ID), Do: func() {
				if r.Net.DeliverFin(r.Net.Link(ls.ID)) {
					r.Logf("fin %s", ls.Name)
					r.AddShape("fin")
				}
			}})
		}
		if ls.Stalled > 0 {
			evs = append(evs, Ev{Kind: "stall-release", Desc: ls.Name, key: fmt.Sprintf("c%08d", ls.ID), Do: func() {
				r.Net.ReleaseStall(r.Net.Link(ls.ID))
				r.Logf("stall released %s", ls.Name)
				r.Count("fault_write_stall_fired")
				if at, ok := r.stallArmedAt[ls.ID]; ok {
					for _, rs := range r.Net.LinkStates() {
						if rs.ID == ls.Reverse && rs.Delivered > at {
							// the peer's answer reached the writer's side before its write returned
							r.Count("stall_reply_before_release")
						}
					}
					delete(r.stallArmedAt, ls.ID)
				}
				r.AddShape("unstall")
			}})
		}
	}
	// datagrams: per flow (from,to), the head; with reordering the first 4
	fl := r.Net.Flight()
	perFlow := map[string]int{}
	for _, d := range fl {
		k := d.From + ">" + d.To
		perFlow[k]++
		if perFlow[k] > 1 && !(p.Reorder && perFlow[k] <= 4) {
			continue
		}
		d := d
		// keyed by flow, then by position in the flow: two sockets that send at the same simulated
		// instant (equal timers fire in an order nobody controls) are ordered by address, not by arrival
		evs = append(evs, Ev{Kind: "dgram", Desc: d.Desc(), key: fmt.Sprintf("d%s>%s#%08d", d.From, d.To, d.FlowN),
			Do: func() { r.deliverDgram(p, d, perFlow[d.From+">"+d.To] > 1) }})
	}
	sort.SliceStable(evs, func(i, j int) bool { return evs[i].key < evs[j].key })
	return evs
}

func bucket(n int) string {
	switch {
	case n <= 1:
		return "1"
	case n < 64:
		return "s"
	case n < 4096:
		return "m"
	case n == 4096:
		return "4k"
	case n < 32640:
		return "l"
	case n <= 32768:
		return "32k"
	case n < 65536:
		return "x"
	}
	return "h"
}

func (r *Run) deliverData(p *NetPolicy, ls simrt.LinkState) {
	l := r.Net.Link(ls.ID)
	n := ls.Inflight
	size := n
	mode := 0
	switch {
	case p.Whole:
		mode = 0
	case p.ChunkBias == 0:
		mode = r.Ch.OneOf("chunk-mode", 0, 0, 0, 0, 0, 0, 0, 1, 2, 3)
	case p.ChunkBias == 1:
		mode = r.Ch.OneOf("chunk-mode", 0, 0, 1, 2, 2, 3, 3)
	default:
		mode = r.Ch.OneOf("chunk-mode", 0, 1, 1, 1, 2, 3)
	}
	switch mode {
	case 1:
		size = 1
	case 2:
		size = 1 + r.Ch.Pick(n, "chunk-rand")
	case 3:
		b := p.Boundaries
		if b == nil {
			b = defaultBoundaries
		}
		size = b[r.Ch.Pick(len(b), "chunk-boundary")]
		if size > n {
			size = n
		}
	}
	k := r.Net.Deliver(l, size)
	r.Logf("deliver %s %d/%d", ls.Name, k, n)
	r.AddShape("d" + bucket(k))
	if k < n {
		r.Count("fault_segmentation")
	}
}

func (r *Run) deliverDgram(p *NetPolicy, d simrt.DgramState, overtakes bool) {
	fate := 0
	p.sinceFault++
	if (p.LossBudget > 0 || p.DupBudget > 0) && p.sinceFault > p.MinGap {
		fate = r.Ch.OneOf("dgram-fate", 0, 0, 0, 0, 0, 0, 1, 2)
	}
	if fate == 1 && p.LossBudget <= 0 {
		fate = 0
	}
	if fate == 2 && p.DupBudget <= 0 {
		fate = 0
	}
	if overtakes {
		r.Count("fault_dgram_reorder")
	}
	if fate != 0 {
		p.sinceFault = 0
	}
	switch fate {
	case 1:
		p.LossBudget--
		r.Net.DropDgram(d.Seq)
		r.Count("fault_dgram_loss")
		r.Logf("drop dgram %s", d.Desc())
		r.AddShape("gx")
		return
	case 2:
		p.DupBudget--
		if p.DgramHook != nil {
			// duplication through a middlebox: deliver a copy now, keep the original in flight
		}
		r.Net.DeliverDgram(d.Seq, true)
		r.Count("fault_dgram_dup")
		r.Logf("dup dgram %s", d.Desc())
		r.AddShape("g2")
		return
	}
	if p.DgramHook != nil && p.DgramHook(d.Seq) {
		r.AddShape("gm")
		return
	}
	if r.DgramFilter != nil && r.DgramFilter(d.Seq) {
		// run-wide filter (applies under every policy, including RunFor's): e.g. a host that vanished
		r.AddShape("gf")
		return
	}
	ok := r.Net.DeliverDgram(d.Seq, false)
	r.Logf("dgram %s delivered=%v", d.Desc(), ok)
	r.AddShape("g" + bucket(d.Len))
}

// Step performs one driver decision. It returns false when nothing is enabled
// and nothing happened within idle simulated time.
func (r *Run) Step(p *NetPolicy, extra []Ev, idle time.Duration) bool {
	synctest.Wait()
	// drain a stale activity token: everything it announced is visible now
	select {
	case <-r.Net.Activity:
	default:
	}
	r.Steps++
	r.maybeGC()
	evs := append(r.NetEvents(p), extra...)
	if len(evs) == 0 {
		// sleep until the system does something observable or idle passes
		t := time.NewTimer(idle)
		select {
		case <-r.Net.Activity:
			t.Stop()
			return true
		case <-t.C:
			return false
		}
	}
	n := len(evs)
	delay := p.DelayBudget > 0 && p.MaxDelay > 0 && p.sinceFault > p.MinGap
	if delay {
		n++
	}
	c := r.Ch.Pick(n, "event")
	if c == len(evs) {
		p.DelayBudget--
		p.sinceFault = 0
		d := time.Duration(1+r.Ch.Pick(1000, "delay-ms")) * p.MaxDelay / 1000
		r.Logf("delay %v with %d events pending", d, len(evs))
		r.Count("fault_delay")
		r.AddShape("z")
		time.Sleep(d)
		return true
	}
	evs[c].Do()
	if p.Burst > 1 && c < len(evs)-len(extra) {
		k := r.Ch.Pick(p.Burst, "burst")
		for ; k > 0; k-- {
			more := r.NetEvents(p)
			if len(more) == 0 {
				break
			}
			r.Count("burst_events")
			more[r.Ch.Pick(len(more), "burst-event")].Do()
		}
	}
	return true
}

// Settle runs the system with fair, whole, fault-free delivery until no
// network event is enabled and nothing happens for quiet simulated time, or
// until limit simulated time has passed.
func (r *Run) Settle(quiet, limit time.Duration, extra func() []Ev) {
	p := &NetPolicy{Whole: true}
	deadline := time.Now().Add(limit)
	for time.Now().Before(deadline) && r.Steps < r.MaxSteps*4 {
		synctest.Wait()
		select {
		case <-r.Net.Activity:
		default:
		}
		r.Steps++
		r.maybeGC()
		evs := r.NetEvents(p)
		if extra != nil {
			evs = append(evs, extra()...)
		}
		if len(evs) == 0 {
			t := time.NewTimer(quiet)
			select {
			case <-r.Net.Activity:
				t.Stop()
				continue
			case <-t.C:
				return
			}
		}
		// oldest first, everything: deterministic, no choice consumed
		evs[0].Do()
	}
}

type simLinkState = simrt.LinkState

// RunFor lets simulated time pass for d while delivering everything fairly
// (no faults, no choices): keep-alives flow, timers fire, nothing is starved.
func (r *Run) RunFor(d time.Duration) {
	p := &NetPolicy{Whole: true}
	deadline := time.Now().Add(d)
	for time.Now().Before(deadline) {
		synctest.Wait()
		select {
		case <-r.Net.Activity:
		default:
		}
		r.Steps++
		r.maybeGC()
		evs := r.NetEvents(p)
		if len(evs) == 0 {
			rem := time.Until(deadline)
			if rem <= 0 {
				return
			}
			t := time.NewTimer(rem)
			select {
			case <-r.Net.Activity:
				t.Stop()
			case <-t.C:
				return
			}
			continue
		}
		evs[0].Do()
	}
}

// maybeGC collects garbage at a quiescent point every few thousand driver
// decisions. The collector is otherwise off during a run (a concurrent cycle
// would perturb goroutine scheduling); a collection placed by step count is
// the same in every replay, and keeps long histories (hours of simulated
// polling, 64 KiB receive buffers per exchange) within the worker's memory limit.
func (r *Run) maybeGC() {
	if r.Steps%4000 == 0 {
		runtime.GC()
	}
}
