package verif

import (
	"fmt"
	"net"
	"testing/synctest"
	"time"

	sdns "github.com/bokysan/socketace/v2/internal/streams/dns"
	dnsutil "github.com/bokysan/socketace/v2/internal/streams/dns/util"
	mdns "github.com/miekg/dns"
)

func init() { Scenarios["C07"] = scenarioC07 }

func scenarioC07(r *Run) {
	if r.Ch.Pick(10, "mode") < 6 {
		c07queues(r)
	} else {
		c07conns(r)
	}
}

// ---------------------------------------------------------------- queue level
//
// The real util.OutQueue and util.InQueue joined by a channel the driver owns:
// exactly the stop-and-wait exchange the tunnel performs (one chunk per
// exchange, ack = next expected - 1 travelling back), with per-exchange fates.

func c07queues(r *Run) {
	c := r.Ch
	start := uint16(0)
	switch c.Pick(4, "start-seq") {
	case 1:
		start = uint16(65535 - c.Pick(300, "before-wrap"))
	case 2:
		start = uint16(c.Pick(65536, "any-start"))
	case 3:
		start = 65535
	}
	mtu := uint32(c.OneOf("mtu", 1, 2, 7, 50, 191, 1000))
	total := 1 + c.Pick(3000, "bytes")
	longOdds := 40
	if r.Tier == "thorough" {
		longOdds = 12
	}
	if c.Chance(1, longOdds, "long-stream") {
		// more than 65536 packets from the drawn start
		mtu = 1
		total = 70000 + c.Pick(5000, "long-bytes")
	}
	class := []string{"clean", "isolated-loss", "heavy"}[c.Pick(3, "fault-class")]
	r.Info["mode"] = "queues"
	r.Info["start_seq"] = start
	r.Info["mtu"] = mtu
	r.Info["bytes"] = total
	r.Info["fault_class"] = class

	out := &dnsutil.OutQueue{NextSeqNo: start}
	in := &dnsutil.InQueue{NextSeqNo: start}
	key := AppKey(r.Seed, 0)

	// writer: application writes (each blocks until its packets are acknowledged)
	plan := Partition(c, total, "write-part")
	if total >= 70000 {
		// long stream: many small writes (a single huge write would only queue 70 000 one-byte chunks at once)
		plan = nil
		for rem := total; rem > 0; {
			k := 1 + c.Pick(64, "long-write")
			if k > rem {
				k = rem
			}
			plan = append(plan, Op{Kind: "write", N: k})
			rem -= k
		}
	}
	type wres struct {
		n   int
		err error
		off int64
	}
	var results []wres
	writerDone := false
	var sent int64
	go func() {
		for _, op := range plan {
			buf := make([]byte, op.N)
			prfFill(key, sent, buf)
			n, err := out.Write(buf, mtu)
			results = append(results, wres{n, err, sent})
			sent += int64(n)
			if err != nil {
				break
			}
		}
		writerDone = true
	}()
	// reader
	var rcvd int64
	readerBroken := ""
	go func() {
		buf := make([]byte, 4096)
		exp := make([]byte, 4096)
		for {
			n, err := in.Read(buf)
			if n > 0 {
				prfFill(key, rcvd, exp[:n])
				for i := 0; i < n; i++ {
					if buf[i] != exp[i] {
						if readerBroken == "" {
							readerBroken = fmt.Sprintf("byte at stream offset %d is 0x%02x, expected 0x%02x (read of %d bytes at offset %d)", rcvd+int64(i), buf[i], exp[i], n, rcvd)
						}
						break
					}
				}
				rcvd += int64(n)
			}
			if err != nil {
				return
			}
		}
	}()

	var history []*dnsutil.Packet
	var ackHistory []uint16
	faultsLeft := 0
	switch class {
	case "isolated-loss":
		faultsLeft = 1 + c.Pick(20, "faults")
	case "heavy":
		faultsLeft = 1 + c.Pick(200, "faults")
	}
	lastFaulted := false
	exchanges := 0
	maxExchanges := 40*total/int(mtu) + 4000
	for exchanges < maxExchanges {
		synctest.Wait()
		if readerBroken != "" {
			r.FailSig("stream-integrity", fmt.Sprintf("mode=queues wrap=%v", crossesWrap(start, exchanges)), "queue level: %s; start seq %d, mtu %d, after %d exchanges", readerBroken, start, mtu, exchanges)
			return
		}
		if writerDone && rcvd >= sent {
			break
		}
		exchanges++
		r.Steps++
		chunk := out.NextChunk()
		fate := 0
		if faultsLeft > 0 && !(class == "isolated-loss" && lastFaulted) {
			fate = c.OneOf("exchange-fate", 0, 0, 0, 1, 2, 3, 4, 5)
		}
		lastFaulted = fate != 0
		if fate != 0 {
			faultsLeft--
		}
		deliverQuery := true
		deliverAnswer := true
		switch fate {
		case 1: // query lost
			deliverQuery, deliverAnswer = false, false
			r.Count("fault_query_lost")
		case 2: // answer lost (the receiver has processed the packet)
			deliverAnswer = false
			r.Count("fault_answer_lost")
		case 3: // query duplicated
			r.Count("fault_query_dup")
		case 4: // an old query replayed before this one
			if len(history) > 0 {
				old := history[c.Pick(len(history), "replay-which")]
				in.Append(&dnsutil.Packet{SeqNo: old.SeqNo, Data: append([]byte(nil), old.Data...)})
				r.Count("fault_old_query_replayed")
			}
		case 5: // a late answer (an old acknowledgement) arrives now
			if len(ackHistory) > 0 {
				out.UpdateAcked(ackHistory[c.Pick(len(ackHistory), "late-ack-which")])
				r.Count("fault_late_answer")
			}
		}
		if deliverQuery {
			if chunk != nil {
				cp := &dnsutil.Packet{SeqNo: chunk.SeqNo, Data: append([]byte(nil), chunk.Data...)}
				err := in.Append(cp)
				if fate == 3 {
					in.Append(&dnsutil.Packet{SeqNo: chunk.SeqNo, Data: append([]byte(nil), chunk.Data...)})
				}
				if err != nil && class != "heavy" {
					r.FailSig("packet-rejected", "mode=queues", "queue level: the receiver rejected the in-order packet #%d: %v", chunk.SeqNo, err)
					return
				}
				if len(history) < 512 {
					history = append(history, cp)
				} else {
					history[exchanges%512] = cp
				}
			}
			ack := in.NextSeqNo - 1
			if len(ackHistory) < 256 {
				ackHistory = append(ackHistory, ack)
			} else {
				ackHistory[exchanges%256] = ack
			}
			if deliverAnswer {
				out.UpdateAcked(ack)
			}
		}
		if in.NextSeqNo < start && start != 0 {
			r.Count("sequence_wrap_crossed")
		}
	}
	synctest.Wait()
	sig := fmt.Sprintf("mode=queues class=%s wrap=%v", class, crossesWrap(start, exchanges))
	if readerBroken != "" {
		r.FailSig("stream-integrity", sig, "queue level: %s", readerBroken)
		return
	}
	if !writerDone || rcvd < sent {
		r.FailSig("not-delivered", sig, "queue level: after %d fault-free-at-the-end exchanges the writer is done=%v, accepted %d bytes, receiver read %d (start seq %d, mtu %d, %d bytes planned)", exchanges, writerDone, sent, rcvd, start, mtu, total)
		return
	}
	if rcvd > sent {
		r.FailSig("stream-integrity", sig, "queue level: receiver read %d bytes, more than the %d accepted", rcvd, sent)
		return
	}
	for _, w := range results {
		if w.err != nil && class != "heavy" {
			r.FailSig("write-failed-on-isolated-loss", sig, "queue level: Write returned (%d, %v)", w.n, w.err)
			return
		}
	}
	r.NonTriv = true
	r.AddShape(fmt.Sprintf("q/%s/%d/%v", class, mtu, crossesWrap(start, exchanges)))
	r.CountN("queue_exchanges", exchanges)
}

func crossesWrap(start uint16, packets int) bool {
	return int(start)+packets > 65535
}

var _ = time.Second

// ---------------------------------------------------------------- connection level

// dnsPair is a real DNS-tunnel client connection and the matching server-side
// connection, joined by simulated UDP.
type dnsPair struct {
	Client   *sdns.ClientDnsConnection
	Server   net.Conn
	Listener *sdns.ServerDnsListener
	accepted chan net.Conn
}

func startDnsServer(r *Run, addr string) (*sdns.ServerDnsListener, chan net.Conn, error) {
	return startDnsServerGated(r, addr, nil)
}

// startDnsServerGated: with a gate, the server application does not call Accept before the gate is closed
// (a busy or stalled acceptor; the listener serves DNS queries all the same and queues new sessions).
func startDnsServerGated(r *Run, addr string, gate chan struct{}) (*sdns.ServerDnsListener, chan net.Conn, error) {
	r.Net.SourceIP = ServerIP
	comm, err := sdns.NewNetConnectionServerCommunicator(&mdns.Server{Addr: addr, Net: "udp"})
	if err != nil {
		return nil, nil, err
	}
	ln := sdns.NewServerDnsListener(Domain, comm)
	ch := make(chan net.Conn, 64)
	go func() {
		if gate != nil {
			<-gate
		}
		for {
			c, err := ln.Accept()
			if err != nil {
				return
			}
			ch <- c
		}
	}()
	r.OnCleanup(func() { ln.Close() })
	return ln, ch, nil
}

// serverConnFor returns the accepted server-side connection that belongs to the client's session
// (a lost answer to the version request makes the client retry and the server open an orphan session).
func serverConnFor(accepted chan net.Conn, dc *sdns.ClientDnsConnection) net.Conn {
	var found net.Conn
	for {
		select {
		case c := <-accepted:
			if id, ok := sdns.SimServerUserId(c); ok && id == dc.SimUserId() {
				found = c
			}
		default:
			return found
		}
	}
}

func dialDnsClient(r *Run, addr, sourceIP string) (*sdns.ClientDnsConnection, error) {
	r.Net.SourceIP = sourceIP
	comm, err := sdns.NewNetConnectionClientCommunicator(&sdns.ClientConfig{Servers: sdns.AddressList{sdns.MustResolveNetworkAddress("udp", addr, "53")}})
	if err != nil {
		return nil, err
	}
	return sdns.NewClientDnsConnection(Domain, comm)
}

func c07conns(r *Run) {
	c := r.Ch
	addr := fmt.Sprintf("%s:%d", ServerIP, 5353)
	ln, accepted, err := startDnsServer(r, addr)
	if err != nil {
		r.Fail("world-setup", "dns server: %v", err)
		return
	}
	_ = ln
	dc, err := dialDnsClient(r, addr, ClientIP)
	if err != nil {
		r.Fail("world-setup", "dns client: %v", err)
		return
	}
	r.OnCleanup(func() { dc.Close() })
	// Starting sequence numbers, installed before any packet (and therefore any
	// acknowledgement) is exchanged: on the client before the handshake, on the
	// server as soon as the session is accepted (packets only flow after the handshake).
	cOut, sOut := uint16(0), uint16(0)
	switch c.Pick(4, "start-seq") {
	case 1:
		cOut, sOut = uint16(65535-c.Pick(40, "c-before-wrap")), uint16(65535-c.Pick(40, "s-before-wrap"))
	case 2:
		cOut, sOut = uint16(c.Pick(65536, "c-any")), uint16(c.Pick(65536, "s-any"))
	case 3:
		cOut, sOut = 65535, 65535
	}
	dc.SimSetSeq(cOut, sOut)
	// phase 1: handshake on a clean path
	var hsErr error
	hsDone := false
	go func() {
		hsErr = dc.Handshake()
		hsDone = true
	}()
	var srv net.Conn
	grab := func() {
		if srv == nil {
			select {
			case srv = <-accepted:
				sdns.SimSetServerSeq(srv, sOut, cOut)
			default:
			}
		}
	}
	clean := &NetPolicy{Whole: true}
	out := r.Drive(clean, func() bool { grab(); return hsDone }, nil, 3*time.Minute, 40*time.Minute)
	if !hsDone || hsErr != nil {
		r.FailSig("handshake-on-clean-path", "mode=conns", "%s: the DNS handshake did not succeed on a loss-free transparent path: %v", out, hsErr)
		return
	}
	grab()
	if srv == nil {
		r.Fail("world-setup", "server did not accept the session")
		return
	}
	class := []string{"clean", "isolated-loss", "isolated-loss", "heavy"}[c.Pick(4, "fault-class")]
	na, ns := c.Pick(3000, "client-bytes"), c.Pick(6000, "server-bytes")
	if na+ns == 0 {
		na = 1
	}
	r.Info["mode"] = "conns"
	r.Info["start_seq(client_out/server_out)"] = fmt.Sprintf("%d/%d", cOut, sOut)
	r.Info["fault_class"] = class
	r.Info["bytes(client/server)"] = fmt.Sprintf("%d/%d", na, ns)
	keyC, keyS := AppKey(r.Seed, 0), TargetKey(r.Seed, 0, 0)
	pc := NewPeer(r, "dns-client", "app", dc, keyC, []Candidate{keyS})
	ps := NewPeer(r, "dns-server", "target", srv, keyS, []Candidate{keyC})
	r.registerPeer(pc)
	r.registerPeer(ps)
	pc.Script = Partition(c, na, "client-part")
	ps.Script = Partition(c, ns, "server-part")
	// "All write sizes relative to the fragment size": in one run of four a single Write needs far more
	// fragments than any window of the implementation (128 cached chunks / acknowledgements): the
	// downstream fragment size is switched to a small value (the client's -m option does the same) and
	// each side writes 130-300 fragments' worth in one call.
	if c.Chance(1, 4, "many-fragments-per-write") {
		f := uint32(20 + c.Pick(100, "small-fragment"))
		var swErr error
		swDone := false
		go func() {
			swErr = dc.SwitchFragmentSize(f)
			swDone = true
		}()
		r.Drive(&NetPolicy{Whole: true}, func() bool { return swDone }, nil, 2*time.Minute, 10*time.Minute)
		if !swDone || swErr != nil {
			r.FailSig("handshake-on-clean-path", "mode=conns", "switching the downstream fragment size to %d on a loss-free path failed: done=%v %v", f, swDone, swErr)
			return
		}
		ns = int(f) * (130 + c.Pick(170, "server-fragments"))
		na = 100 * (130 + c.Pick(170, "client-fragments"))
		pc.Script = []Op{{Kind: "write", N: na}}
		ps.Script = []Op{{Kind: "write", N: ns}}
		r.Info["many_fragments_per_write"] = fmt.Sprintf("downstream fragment %d, one server write of %d bytes, one client write of %d bytes", f, ns, na)
		r.Count("many_fragment_writes")
	}

	pol := &NetPolicy{Reorder: false}
	switch class {
	case "isolated-loss":
		pol.LossBudget = 1 + c.Pick(4, "loss")
		pol.DupBudget = c.Pick(3, "dup")
		pol.DelayBudget = c.Pick(2, "late")
		pol.MaxDelay = 3 * time.Second
		pol.MinGap = 8
	case "heavy":
		pol.LossBudget = c.Pick(30, "loss")
		pol.DupBudget = c.Pick(30, "dup")
		pol.DelayBudget = c.Pick(6, "late")
		pol.MaxDelay = 4 * time.Second
		pol.Reorder = true
	}
	// In one run of three with duplication faults, a duplicate and its original may arrive back to back
	// (Burst) and every lock operation is a seeded scheduling point: the DNS server serves every datagram
	// on its own goroutine, so the two copies of a query are then processed at the same time.
	// (Only in the "heavy" class: the isolated-loss class promises faults that are far apart.)
	concurrentDups := class == "heavy" && c.Chance(1, 2, "concurrent-duplicates")
	if concurrentDups {
		pol.Burst = 3
		if pol.DupBudget < 10 {
			pol.DupBudget = 10 + c.Pick(30, "more-dups")
		}
		r.Count("runs_with_concurrent_duplicates")
	}
	// old queries that may be replayed
	var old [][]byte
	var oldFrom, oldTo net.Addr
	replays := 0
	if class == "heavy" {
		replays = c.Pick(4, "replays")
	}
	// an outage: the path loses everything for 8-40 simulated seconds (long enough for the client's five
	// growing timeouts to run out and a Write to fail), then recovers
	outages := 0
	if class == "heavy" && c.Chance(1, 2, "outage") {
		outages = 1 + c.Pick(2, "outages")
	}
	var outageUntil time.Time
	pol.DgramHook = func(seq int) bool {
		if d := r.Net.PeekDgram(seq); d != nil && d.To.String() == addr {
			if len(old) < 64 {
				old = append(old, d.Data)
				oldFrom, oldTo = d.From, d.To
			}
		}
		if time.Now().Before(outageUntil) {
			r.Net.DropDgram(seq)
			r.Count("fault_dgram_loss")
			r.Count("fault_outage_drop")
			return true
		}
		return false
	}
	var writeErrs []string
	extra := func() []Ev {
		var evs []Ev
		if e, ok := pc.NextEv(); ok {
			evs = append(evs, e)
		}
		if e, ok := ps.NextEv(); ok {
			evs = append(evs, e)
		}
		if outages > 0 && !time.Now().Before(outageUntil) {
			evs = append(evs, Ev{Kind: "fault:outage", Desc: "path outage", key: "o", Do: func() {
				outages--
				d := time.Duration(8+c.Pick(33, "outage-s")) * time.Second
				outageUntil = time.Now().Add(d)
				r.Count("fault_outage")
				r.Logf("path outage for %v", d)
				r.AddShape("outage")
			}})
		}
		if replays > 0 && len(old) > 0 {
			evs = append(evs, Ev{Kind: "fault:replay", Desc: "replay an old query", key: "r", Do: func() {
				replays--
				k := c.Pick(len(old), "replay-which")
				r.Net.Inject("udp", oldFrom, oldTo, old[k])
				r.Count("fault_old_query_replayed")
				r.Logf("replayed old query %d", k)
				r.AddShape("replay")
			}})
		}
		return evs
	}
	done := func() bool {
		cs, cr, _, _, _, _ := pc.Snapshot()
		ss, sr, _, _, _, _ := ps.Snapshot()
		scriptsDone := len(pc.Script) == 0 && len(ps.Script) == 0 && pc.Idle() && ps.Idle()
		return scriptsDone && cr == ss && sr == cs
	}
	if concurrentDups {
		r.YieldsOn("yield-seed")
	}
	out = r.Drive(pol, done, extra, 2*time.Minute, 60*time.Minute)
	r.YieldsOff()
	if out == Aborted {
		return
	}
	faultsFired := r.Stats["fault_dgram_loss"] + r.Stats["fault_dgram_dup"] + r.Stats["fault_delay"] + r.Stats["fault_old_query_replayed"]
	if out != GoalMet {
		// drain phase: no faults, fair delivery; everything accepted must arrive and every Write must return
		out = r.Drive(&NetPolicy{Whole: true}, done, extra, 3*time.Minute, 60*time.Minute)
	}
	if out == Aborted {
		return
	}
	pc.mu.Lock()
	if pc.TxErr != nil {
		writeErrs = append(writeErrs, "client: "+pc.TxErr.Error())
	}
	pc.mu.Unlock()
	ps.mu.Lock()
	if ps.TxErr != nil {
		writeErrs = append(writeErrs, "server: "+ps.TxErr.Error())
	}
	ps.mu.Unlock()
	cs, cr, _, _, _, _ := pc.Snapshot()
	ss, sr, _, _, _, _ := ps.Snapshot()
	sig := fmt.Sprintf("mode=conns class=%s faults_fired=%v", class, faultsFired > 0)
	if class != "heavy" && len(writeErrs) > 0 {
		r.FailSig("write-failed-on-isolated-loss", sig, "with %d isolated datagram faults (loss=%d dup=%d late=%d) a Write surfaced a failure instead of the loss being absorbed by retransmission: %v", faultsFired, r.Stats["fault_dgram_loss"], r.Stats["fault_dgram_dup"], r.Stats["fault_delay"], writeErrs)
		return
	}
	if class != "heavy" && dc.Closed() {
		r.FailSig("connection-closed-on-isolated-loss", sig, "the client connection closed itself under isolated faults")
		return
	}
	if out != GoalMet && len(writeErrs) > 0 && !dc.Closed() {
		// A Write that failed under heavy loss is tolerated - but once the path is clean again (the drain phase
		// above: minutes of fair, fault-free delivery) the connection, still open, must be usable: a later Write
		// must return, not wait for ever for a queue that nobody empties any more.
		busy := func(p *Peer) bool {
			p.mu.Lock()
			defer p.mu.Unlock()
			return p.busy && !p.Closed
		}
		if busy(pc) || busy(ps) {
			r.FailSig("write-blocked-after-recovery", sig, "%s: a Write failed while the path was losing (%v); minutes after the path had recovered, with the connection still open, a later Write had not returned (client in Write: %v, server in Write: %v; client accepted %d / server read %d, server accepted %d / client read %d)", out, writeErrs, busy(pc), busy(ps), cs, sr, ss, cr)
			return
		}
	}
	if out != GoalMet && len(writeErrs) == 0 {
		r.FailSig("not-delivered", sig, "%s: once the path stopped losing, not everything accepted arrived / not every Write returned: client accepted %d (server read %d), server accepted %d (client read %d), scripts left %d/%d", out, cs, sr, ss, cr, len(pc.Script), len(ps.Script))
		return
	}
	if len(writeErrs) == 0 && (cr != ss || sr != cs) {
		r.FailSig("not-delivered", sig, "acknowledged bytes missing: client accepted %d (server read %d), server accepted %d (client read %d)", cs, sr, ss, cr)
		return
	}
	r.NonTriv = true
	r.CountN("conn_bytes_moved", int(cs+ss))
	// One run in two ends with the server writing several fragments' worth and closing as soon as Write has
	// returned success - "a write reported as successful is delivered" whatever the application does next. The
	// writer may be taken off the processor between any two of its critical sections (PreemptOn).
	if len(writeErrs) == 0 && !dc.Closed() && c.Chance(1, 2, "write-then-close") {
		frag := int(dc.Serializer.Downstream.FragmentSize)
		nb := frag*(1+c.Pick(6, "wc-fragments")) + 1 + c.Pick(frag, "wc-rest")
		want := ss + int64(nb)
		// In half of these the client application is slow to read: it reads nothing while the server writes and
		// closes (the tunnel receives and acknowledges everything meanwhile) and only looks again ten seconds
		// after the close - what was acknowledged must still be there, before the end of the stream.
		lagging := c.Chance(1, 2, "reader-lags-behind-the-close")
		if lagging {
			pc.Do(Op{Kind: "pause"})
			r.Count("write_then_close_with_lagging_reader")
		}
		r.PreemptOn("preempt-seed")
		ps.Do(Op{Kind: "write-close", N: nb})
		if lagging {
			r.Drive(&NetPolicy{Whole: true}, func() bool {
				_, _, _, _, sclosed, _ := ps.Snapshot()
				return sclosed
			}, nil, 2*time.Minute, 20*time.Minute)
			r.RunFor(10 * time.Second)
			pc.Do(Op{Kind: "resume"})
		}
		out = r.Drive(&NetPolicy{Whole: true}, func() bool {
			_, got, eof, rerr, _, _ := pc.Snapshot()
			return got == want || eof || rerr != nil
		}, nil, 2*time.Minute, 20*time.Minute)
		r.YieldsOff()
		if out == Aborted {
			return
		}
		r.RunFor(5 * time.Second)
		sent, _, _, _, sclosed, _ := ps.Snapshot()
		_, got, eof, rerr, _, _ := pc.Snapshot()
		ps.mu.Lock()
		werr := ps.TxErr
		ps.mu.Unlock()
		switch {
		case werr != nil:
			r.FailSig("write-failed-on-isolated-loss", sig+" write-then-close", "on a loss-free path the server's last Write of %d bytes failed: %v", nb, werr)
			return
		case sent == want && sclosed && got < want:
			r.FailSig("not-delivered", sig+" write-then-close", "%s: the server's Write of %d bytes (%d fragments of %d) returned success and the server closed; the client received %d of them before its stream ended (eof=%v err=%v)", out, nb, (nb+frag-1)/frag, frag, got-ss, eof, rerr)
			return
		case sent == want && got == want:
			r.Count("write_then_close_delivered")
		}
	}
	if int(cOut)+int(cs)/150 > 65535 || int(sOut)+int(ss)/1000 > 65535 || cOut > 65400 || sOut > 65400 {
		r.Count("sequence_wrap_region")
	}
}
