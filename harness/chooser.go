package verif

import "fmt"

// Chooser is the single source of choice of a run. In generate mode every
// decision is drawn from one splitmix64/xoshiro256** stream seeded from
// (VERIF_SEED, run index) and recorded; in replay mode the recorded vector is
// fed back (past its end: 0 = "first enabled event, no fault, smallest size").
type Chooser struct {
	s      [4]uint64
	replay []uint32
	Replay bool
	pos    int
	Rec    []uint32 // the choices made, in order
	Labels []string // parallel to Rec when KeepLabels
	Keep   bool
}

func splitmix(x *uint64) uint64 {
	*x += 0x9e3779b97f4a7c15
	z := *x
	z = (z ^ (z >> 30)) * 0xbf58476d1ce4e5b9
	z = (z ^ (z >> 27)) * 0x94d049bb133111eb
	return z ^ (z >> 31)
}

func NewChooser(seed uint64, idx int) *Chooser {
	c := &Chooser{}
	x := seed*0x9E3779B97F4A7C15 + uint64(idx)*0xD1B54A32D192ED03 + 0x2545F4914F6CDD1D
	for i := range c.s {
		c.s[i] = splitmix(&x)
	}
	return c
}

func NewReplayChooser(vec []uint32) *Chooser {
	return &Chooser{replay: vec, Replay: true}
}

func rotl(x uint64, k uint) uint64 { return (x << k) | (x >> (64 - k)) }

func (c *Chooser) next() uint64 {
	s := &c.s
	r := rotl(s[1]*5, 7) * 9
	t := s[1] << 17
	s[2] ^= s[0]
	s[3] ^= s[1]
	s[1] ^= s[2]
	s[0] ^= s[3]
	s[2] ^= t
	s[3] = rotl(s[3], 45)
	return r
}

// Pick returns a value in [0,n). n must be >= 1.
func (c *Chooser) Pick(n int, label string) int {
	if n <= 0 {
		panic(fmt.Sprintf("chooser: Pick(%d) at %s", n, label))
	}
	var v int
	if c.Replay {
		if c.pos < len(c.replay) {
			v = int(c.replay[c.pos]) % n
		}
		c.pos++
	} else {
		if n == 1 {
			v = 0
		} else {
			v = int(c.next() % uint64(n))
		}
	}
	c.Rec = append(c.Rec, uint32(v))
	if c.Keep {
		c.Labels = append(c.Labels, label)
	}
	return v
}

// Chance is true with probability num/den; choice 0 (the shrink target) is false.
func (c *Chooser) Chance(num, den int, label string) bool {
	return c.Pick(den, label) >= den-num
}

// Range returns a value in [lo,hi].
func (c *Chooser) Range(lo, hi int, label string) int {
	if hi < lo {
		hi = lo
	}
	return lo + c.Pick(hi-lo+1, label)
}

// OneOf picks one of the given ints; the first is the shrink target.
func (c *Chooser) OneOf(label string, vals ...int) int {
	return vals[c.Pick(len(vals), label)]
}

// LogUniform returns a size in [1,max], roughly uniform in log2.
func (c *Chooser) LogUniform(max int, label string) int {
	if max <= 1 {
		c.Pick(1, label)
		return 1
	}
	bits := 0
	for (1 << uint(bits)) < max {
		bits++
	}
	b := c.Pick(bits+1, label+"/bits")
	lo := 1 << uint(b) >> 1
	if lo < 1 {
		lo = 1
	}
	hi := 1 << uint(b)
	if hi > max {
		hi = max
	}
	if lo > hi {
		lo = hi
	}
	return c.Range(lo, hi, label)
}
