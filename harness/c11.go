package verif

import (
	"fmt"
	"strings"
	"time"

	mdns "github.com/miekg/dns"
)

func init() { Scenarios["C11"] = scenarioC11 }

// dnsPath is the behaviour of the DNS path between tunnel client and server.
type dnsPath struct {
	Case        string          // "", lower, upper, random
	SevenBit    string          // "", strip, replace, refuse
	Types       map[uint16]bool // record types answered (nil = all)
	Unsupported string          // servfail, notimp, empty
	MaxAnswer   int             // 0 = unlimited
	Oversize    string          // drop, truncate
	StripEdns   bool
	FoldAnswers bool // lower-case host names inside answers (CNAME/MX/SRV targets)
}

func (p dnsPath) String() string {
	var ts []string
	if p.Types != nil {
		for _, t := range []uint16{10, 65000, mdns.TypeTXT, mdns.TypeSRV, mdns.TypeMX, mdns.TypeCNAME, mdns.TypeAAAA, mdns.TypeA} {
			if p.Types[t] {
				ts = append(ts, mdns.Type(t).String())
			}
		}
	}
	return fmt.Sprintf("case=%s 7bit=%s types=%s(%s) max=%d(%s) stripEdns=%v foldAnswers=%v", orDash(p.Case), orDash(p.SevenBit), orAll(ts), p.Unsupported, p.MaxAnswer, p.Oversize, p.StripEdns, p.FoldAnswers)
}

func orDash(s string) string {
	if s == "" {
		return "-"
	}
	return s
}

func orAll(ts []string) string {
	if ts == nil {
		return "all"
	}
	return strings.Join(ts, "+")
}

func drawPath(c *Chooser) dnsPath {
	p := dnsPath{}
	if c.Chance(1, 4, "transparent") {
		return p
	}
	p.Case = []string{"", "", "lower", "upper", "random"}[c.Pick(5, "case")]
	p.SevenBit = []string{"", "", "", "strip", "replace", "refuse"}[c.Pick(6, "7bit")]
	if c.Chance(1, 2, "type-subset") {
		p.Types = map[uint16]bool{}
		all := []uint16{10, 65000, mdns.TypeTXT, mdns.TypeSRV, mdns.TypeMX, mdns.TypeCNAME, mdns.TypeAAAA, mdns.TypeA}
		for _, t := range all {
			if c.Chance(1, 2, "type-ok") {
				p.Types[t] = true
			}
		}
		if len(p.Types) == 0 {
			p.Types[all[c.Pick(len(all), "type-one")]] = true
		}
		p.Unsupported = []string{"servfail", "notimp", "empty"}[c.Pick(3, "unsupported")]
	}
	p.MaxAnswer = c.OneOf("max-answer", 0, 0, 512, 1024, 1232, 2048, 4096, 8192)
	p.Oversize = []string{"drop", "truncate"}[c.Pick(2, "oversize")]
	p.StripEdns = c.Chance(1, 4, "strip-edns")
	p.FoldAnswers = c.Chance(1, 8, "fold-answers")
	return p
}

// mangleName applies the query-name part of the path to the labels in front of the tunnel domain.
func (p dnsPath) mangleName(name string, rnd func(int) int) (string, bool) {
	b := []byte(name)
	for i := range b {
		ch := b[i]
		switch p.Case {
		case "lower":
			if ch >= 'A' && ch <= 'Z' {
				ch += 32
			}
		case "upper":
			if ch >= 'a' && ch <= 'z' {
				ch -= 32
			}
		case "random":
			if ch >= 'A' && ch <= 'Z' && rnd(2) == 0 {
				ch += 32
			} else if ch >= 'a' && ch <= 'z' && rnd(2) == 0 {
				ch -= 32
			}
		}
		if ch >= 0x80 {
			switch p.SevenBit {
			case "strip":
				ch &= 0x7f
				if ch < 0x21 || ch == '.' || ch == '\\' {
					ch = 'x'
				}
			case "replace":
				ch = '?'
			case "refuse":
				return "", false
			}
		}
		b[i] = ch
	}
	return string(b), true
}

// unescapeName / escapeName convert between miekg's presentation form (\DDD escapes) and raw bytes.
func rawName(s string) []byte {
	var out []byte
	for i := 0; i < len(s); i++ {
		if s[i] == '\\' && i+3 < len(s) && isDigit(s[i+1]) && isDigit(s[i+2]) && isDigit(s[i+3]) {
			out = append(out, (s[i+1]-'0')*100+(s[i+2]-'0')*10+(s[i+3]-'0'))
			i += 3
		} else if s[i] == '\\' && i+1 < len(s) {
			out = append(out, s[i+1])
			i++
		} else {
			out = append(out, s[i])
		}
	}
	return out
}

func isDigit(b byte) bool { return b >= '0' && b <= '9' }

// pathMiddlebox returns a DgramHook implementing the path between one client address and the server.
// c11transient is a passing fault of the path during the handshake: the at-th query towards the server (counted
// from 0) is answered with SERVFAIL by the path, or it and the four queries after it are lost (an original and
// its retransmissions, the handshake being sequential).
type c11transient struct {
	kind string // servfail-once, loss-burst
	at   int
	n    int
}

func pathMiddlebox(r *Run, p dnsPath, serverAddr string, tr *c11transient) func(seq int) bool {
	rnd := func(n int) int { return r.Ch.Pick(n, "path-rnd") }
	return func(seq int) bool {
		d := r.Net.PeekDgram(seq)
		if d == nil {
			return false
		}
		msg := new(mdns.Msg)
		if err := msg.Unpack(d.Data); err != nil {
			return false // not DNS: pass through untouched
		}
		toServer := d.To.String() == serverAddr
		r.Net.TakeDgram(seq)
		if toServer {
			if len(msg.Question) != 1 {
				r.Net.Inject("udp", d.From, d.To, d.Data)
				return true
			}
			q := &msg.Question[0]
			if tr != nil {
				n := tr.n
				tr.n++
				if tr.kind == "servfail-once" && n == tr.at {
					rep := new(mdns.Msg)
					rep.SetReply(msg)
					rep.Rcode = mdns.RcodeServerFailure
					out, _ := rep.Pack()
					r.Net.Inject("udp", d.To, d.From, out)
					r.Count("path_transient_servfail")
					return true
				}
				if tr.kind == "loss-burst" && n >= tr.at && n < tr.at+5 {
					r.Count("path_transient_loss")
					return true
				}
			}
			// record types the path does not carry are answered by the path itself
			if p.Types != nil && !p.Types[q.Qtype] {
				rep := new(mdns.Msg)
				rep.SetReply(msg)
				switch p.Unsupported {
				case "servfail":
					rep.Rcode = mdns.RcodeServerFailure
				case "notimp":
					rep.Rcode = mdns.RcodeNotImplemented
				}
				out, _ := rep.Pack()
				r.Net.Inject("udp", d.To, d.From, out)
				r.Count("path_type_refused")
				return true
			}
			raw := string(rawName(q.Name))
			low := strings.ToLower(raw)
			suffix := "." + strings.ToLower(Domain) + "."
			if strings.HasSuffix(low, suffix) {
				head := raw[:len(raw)-len(suffix)]
				m, ok := p.mangleName(head, rnd)
				if !ok {
					rep := new(mdns.Msg)
					rep.SetReply(msg)
					rep.Rcode = mdns.RcodeServerFailure
					out, _ := rep.Pack()
					r.Net.Inject("udp", d.To, d.From, out)
					r.Count("path_8bit_refused")
					return true
				}
				if m != head {
					r.Count("path_name_mangled")
					q.Name = escapeForMiekg(m + raw[len(raw)-len(suffix):])
				}
			}
			if p.StripEdns {
				var extra []mdns.RR
				for _, rr := range msg.Extra {
					if _, ok := rr.(*mdns.OPT); !ok {
						extra = append(extra, rr)
					}
				}
				msg.Extra = extra
			}
			msg.Compress = true
			out, err := msg.Pack()
			if err != nil {
				r.Count("path_repack_failed")
				return true // the path cannot carry it: lost
			}
			r.Net.Inject("udp", d.From, d.To, out)
			return true
		}
		// answer on its way to the client
		if p.FoldAnswers {
			for _, rr := range msg.Answer {
				switch v := rr.(type) {
				case *mdns.CNAME:
					v.Target = strings.ToLower(v.Target)
				case *mdns.MX:
					v.Mx = strings.ToLower(v.Mx)
				case *mdns.SRV:
					v.Target = strings.ToLower(v.Target)
				}
			}
		}
		if p.StripEdns {
			var extra []mdns.RR
			for _, rr := range msg.Extra {
				if _, ok := rr.(*mdns.OPT); !ok {
					extra = append(extra, rr)
				}
			}
			msg.Extra = extra
		}
		out := d.Data
		if p.FoldAnswers || p.StripEdns {
			msg.Compress = true // a resolver re-encodes with name compression, as the origin did
			if o2, err := msg.Pack(); err == nil {
				out = o2
			}
		}
		if p.MaxAnswer > 0 && len(out) > p.MaxAnswer {
			r.Count("path_answer_too_big")
			if p.Oversize == "drop" {
				return true
			}
			tr := new(mdns.Msg)
			tr.MsgHdr = msg.MsgHdr
			tr.Truncated = true
			tr.Question = msg.Question
			out, _ = tr.Pack()
		}
		r.Net.Inject("udp", d.From, d.To, out)
		return true
	}
}

// escapeForMiekg renders raw name bytes in miekg's presentation format.
func escapeForMiekg(raw string) string {
	var b strings.Builder
	for i := 0; i < len(raw); i++ {
		ch := raw[i]
		switch {
		case ch == '.':
			b.WriteByte('.')
		case ch == '\\' || ch == '"' || ch == '(' || ch == ')' || ch == ';' || ch == '@' || ch == '$':
			b.WriteByte('\\')
			b.WriteByte(ch)
		case ch < 0x21 || ch > 0x7e:
			fmt.Fprintf(&b, "\\%03d", ch)
		default:
			b.WriteByte(ch)
		}
	}
	return b.String()
}

func scenarioC11(r *Run) {
	c := r.Ch
	path := drawPath(c)
	loss := 0
	if c.Chance(1, 4, "light-loss") {
		loss = 1 + c.Pick(3, "loss")
	}
	r.Info["path"] = path.String()
	r.Info["light_loss"] = loss
	r.AddShape(path.String())
	addr := fmt.Sprintf("%s:%d", ServerIP, 5353)
	_, accepted, err := startDnsServer(r, addr)
	if err != nil {
		r.Fail("world-setup", "dns server: %v", err)
		return
	}
	dc, err := dialDnsClient(r, addr, ClientIP)
	if err != nil {
		r.Fail("world-setup", "dns client: %v", err)
		return
	}
	r.OnCleanup(func() { dc.Close() })
	var hsErr error
	hsDone := false
	go func() {
		hsErr = dc.Handshake()
		hsDone = true
	}()
	// one handshake in three meets a passing fault at one of its steps: the outcome may be a failure, or a
	// success - and then what was settled on has to work all the same
	var tr *c11transient
	if c.Chance(1, 3, "transient-fault") {
		tr = &c11transient{kind: []string{"servfail-once", "loss-burst"}[c.Pick(2, "transient-kind")], at: c.Pick(40, "transient-at")}
		r.Info["transient_fault"] = fmt.Sprintf("%s at query %d", tr.kind, tr.at)
	}
	pol := &NetPolicy{Whole: true, LossBudget: loss, MinGap: 12, DgramHook: pathMiddlebox(r, path, addr, tr)}
	t0 := r.SimElapsed()
	out := r.Drive(pol, func() bool { return hsDone }, nil, 5*time.Minute, 30*time.Minute)
	if out == Aborted {
		return
	}
	sig := "phase=handshake"
	if !hsDone {
		r.FailSig("handshake-does-not-terminate", sig, "%s: Handshake had not returned after %v simulated on path {%s}", out, r.SimElapsed()-t0, path)
		return
	}
	r.Count("handshakes_terminated")
	if hsErr != nil {
		// failure is an allowed outcome: nothing further is required
		r.Count("handshakes_failed")
		r.Info["handshake"] = "failed: " + truncate(hsErr.Error(), 160)
		r.NonTriv = true
		return
	}
	r.Count("handshakes_succeeded")
	qt := "?"
	if dc.Serializer.Upstream.QueryType != nil {
		qt = mdns.Type(uint16(*dc.Serializer.Upstream.QueryType)).String()
	}
	negotiated := fmt.Sprintf("type=%s up=%s/%d down=%s/%d", qt, dc.Serializer.Upstream.Encoder.Name(), dc.Serializer.Upstream.FragmentSize, dc.Serializer.Downstream.Encoder.Name(), dc.Serializer.Downstream.FragmentSize)
	r.Info["negotiated"] = negotiated
	r.AddShape(negotiated)
	srv := serverConnFor(accepted, dc)
	if srv == nil {
		r.Fail("world-setup", "server did not accept the session")
		return
	}
	// transfer over the same path: 1 byte to several fragments both ways, every kind of content
	keyC, keyS := AppKey(r.Seed, 0), TargetKey(r.Seed, 0, 0)
	pc := NewPeer(r, "dns-client", "app", dc, keyC, []Candidate{keyS})
	ps := NewPeer(r, "dns-server", "target", srv, keyS, []Candidate{keyC})
	r.registerPeer(pc)
	r.registerPeer(ps)
	up := int(dc.Serializer.Upstream.FragmentSize)
	down := int(dc.Serializer.Downstream.FragmentSize)
	na := c.OneOf("client-bytes", 1, up-1, up, up+1, 3*up+5, 4200)
	ns := c.OneOf("server-bytes", 1, down-1, down, down+1, 2*down+7, 4200)
	if na < 1 {
		na = 1
	}
	if ns < 1 {
		ns = 1
	}
	pc.Script = Partition(c, na, "client-part")
	ps.Script = Partition(c, ns, "server-part")
	r.Info["transfer(client/server)"] = fmt.Sprintf("%d/%d", na, ns)
	extra := func() []Ev {
		var evs []Ev
		if e, ok := pc.NextEv(); ok {
			evs = append(evs, e)
		}
		if e, ok := ps.NextEv(); ok {
			evs = append(evs, e)
		}
		return evs
	}
	done := func() bool {
		cs, cr, _, _, _, _ := pc.Snapshot()
		ss, sr, _, _, _, _ := ps.Snapshot()
		return len(pc.Script) == 0 && len(ps.Script) == 0 && pc.Idle() && ps.Idle() && cr == ss && sr == cs && cs == int64(na) && ss == int64(ns)
	}
	pol2 := &NetPolicy{Whole: true, DgramHook: pathMiddlebox(r, path, addr, nil)}
	out = r.Drive(pol2, done, extra, 3*time.Minute, 40*time.Minute)
	if out == Aborted {
		if r.Viol != nil && r.Viol.Rule == "stream-integrity" {
			r.Viol.Rule = "negotiated-parameters-corrupt-data"
			r.Viol.Sig = "path={" + path.String() + "} " + negotiated
			r.Viol.Detail = fmt.Sprintf("handshake succeeded on path {%s} with %s, but: %s", path, negotiated, r.Viol.Detail)
		}
		return
	}
	if out != GoalMet {
		cs, cr, _, _, _, _ := pc.Snapshot()
		ss, sr, _, _, _, _ := ps.Snapshot()
		pc.mu.Lock()
		e1 := pc.TxErr
		pc.mu.Unlock()
		ps.mu.Lock()
		e2 := ps.TxErr
		ps.mu.Unlock()
		r.FailSig("negotiated-parameters-do-not-work", "path={"+path.String()+"} "+negotiated, "%s: handshake succeeded on path {%s} with %s, but the transfer over the same path did not complete: client wrote %d/%d (server read %d, err %v), server wrote %d/%d (client read %d, err %v)", out, path, negotiated, cs, na, sr, e1, ss, ns, cr, e2)
		return
	}
	r.Count("transfers_completed")
	r.NonTriv = true
}
