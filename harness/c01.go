package verif

import (
	"fmt"
	"time"
)

func init() { Scenarios["C01"] = scenarioC01 }

// carrierChoices is the swarm set for whole-system worlds. DNS and KCP worlds
// cost 10-100x a stream world, so they get a smaller share of runs.
func pickCarrier(r *Run) string {
	c := r.Ch
	k := c.Pick(20, "carrier")
	switch {
	case k < 3:
		return "tcp"
	case k < 5:
		return "unix"
	case k < 7:
		return "tcp+tls"
	case k < 8:
		return "unix+tls"
	case k < 11:
		return "ws"
	case k < 13:
		return "wss"
	case k < 14:
		return "stdio"
	case k < 15:
		return "stdio+tls"
	case k < 17:
		return "udp"
	case k < 18:
		return "udp+pass"
	case k < 19:
		return "dns+udp"
	}
	return "dns+tcp"
}

func payloadCap(r *Run, carrier string) int {
	thorough := r.Tier == "thorough"
	switch {
	case CarrierIsDNS(carrier):
		if thorough {
			return 192 * 1024
		}
		return 12 * 1024
	case CarrierIsKCP(carrier):
		if thorough {
			return 1 << 20
		}
		return 128 * 1024
	}
	if thorough {
		return 4 << 20
	}
	return 256 * 1024
}

// securityFor picks certificate/flag settings under which the carrier is
// expected to come up (authentication itself is C05's business).
func securityFor(r *Run, carrier string, cfg *WorldCfg) {
	c := r.Ch
	if CarrierEncrypted(carrier) {
		cfg.ServerCert = "good"
		// a unix-domain or standard-stream upstream has no host name to verify
		if c.Chance(1, 2, "tls-verify") && carrier != "unix+tls" && carrier != "stdio+tls" {
			cfg.ClientCA = "good"
		} else {
			cfg.ClientInsecure = true
		}
		return
	}
	// unencrypted carrier: optionally StartTLS
	if c.Chance(1, 2, "starttls") {
		cfg.ServerCert = "good"
		if c.Chance(1, 2, "tls-verify") && StartTLSVerifies {
			cfg.ClientCA = "good"
			if CarrierIsDNS(carrier) {
				cfg.ServerCert = "good-domain"
			}
			if carrier == "unix" || carrier == "stdio" {
				// no host name to verify on these carriers
				cfg.ClientCA = ""
				cfg.ClientInsecure = true
			}
		} else {
			cfg.ClientInsecure = true
		}
	}
}

// StartTLSVerifies says whether worlds other than C05's may rely on
// certificate verification succeeding over StartTLS (see known finding
// C05/starttls-servername; C05 itself always exercises it).
var StartTLSVerifies = true

func scenarioC01(r *Run) {
	c := r.Ch
	carrier := pickCarrier(r)
	cfg := WorldCfg{Carrier: carrier}
	securityFor(r, carrier, &cfg)
	cfg.Channels = []ChanCfg{{Name: "echo", Target: "tcp://" + TargetIP + ":7001"}}
	lkind := []string{"tcp", "tcp", "unix", "stdio"}[c.Pick(4, "listener-kind")]
	lsn := LsnCfg{Channel: "echo", Kind: lkind, Addr: "127.0.0.1:6000"}
	if lkind == "unix" {
		lsn.Addr = "app.sock"
	}
	cfg.Listeners = []LsnCfg{lsn}
	nconn := 1 + c.Pick(3, "nconn")
	if lkind == "stdio" {
		nconn = 1
	}
	maxPayload := payloadCap(r, carrier)
	bufCap := c.OneOf("sockbuf", 0, 0, 65536, 4096, 262144)
	r.Net.DefaultCap = bufCap

	faulty := false
	pol := &NetPolicy{ChunkBias: c.Pick(3, "chunk-bias")}
	// Benign datagram faults only where the carrier is specified to mask them: KCP, and (isolated
	// faults only) the DNS tunnel over UDP, whose behaviour under heavier loss is C07's subject.
	if CarrierIsKCP(carrier) && c.Chance(1, 2, "benign-faults") {
		faulty = true
		pol.Reorder = true
		pol.LossBudget = c.Pick(6, "loss-budget")
		pol.DupBudget = c.Pick(6, "dup-budget")
	}
	if carrier == "dns+udp" && c.Chance(1, 2, "benign-faults") {
		// isolated datagram faults, which the tunnel's retransmission is specified to absorb (C07)
		faulty = true
		pol.LossBudget = c.Pick(4, "loss-budget")
		pol.DupBudget = c.Pick(3, "dup-budget")
		pol.MinGap = 10
	}
	r.Info["carrier"] = carrier
	r.Info["listener"] = lkind
	r.Info["starttls"] = cfg.ServerCert != "" && !CarrierEncrypted(carrier)
	r.Info["nconn"] = nconn
	r.Info["sockbuf"] = bufCap
	r.Info["faulty"] = faulty

	w, err := BuildWorld(r, cfg)
	if err != nil {
		r.Fail("world-setup", "could not build world: %v", err)
		return
	}
	tgt := w.Targets[0]
	type plan struct{ app, tgt []Op }
	plans := make([]plan, nconn)
	var sizes []string
	for i := range plans {
		dir := c.Pick(3, "direction") // 0 app->target, 1 target->app, 2 both
		var na, nt int
		if dir != 1 {
			na = PickSize(c, maxPayload, "app-bytes")
		}
		if dir != 0 {
			nt = PickSize(c, maxPayload, "tgt-bytes")
		}
		plans[i] = plan{app: Partition(c, na, "app-part"), tgt: Partition(c, nt, "tgt-part")}
		// think time (one connection in five): a writer pauses 1 s .. 2 min between two of its writes,
		// so that data also flows on connections that are no longer new and have been silent for a while
		if c.Chance(1, 5, "think-time") {
			w := Op{Kind: "wait", N: c.OneOf("think-s", 1, 12, 31, 45, 120)}
			if len(plans[i].app) > 0 && (len(plans[i].tgt) == 0 || c.Chance(1, 2, "think-side")) {
				at := c.Pick(len(plans[i].app), "think-at")
				plans[i].app = append(append(append([]Op{}, plans[i].app[:at]...), w), plans[i].app[at:]...)
			} else if len(plans[i].tgt) > 0 {
				at := c.Pick(len(plans[i].tgt), "think-at")
				plans[i].tgt = append(append(append([]Op{}, plans[i].tgt[:at]...), w), plans[i].tgt[at:]...)
			}
			r.Count("connections_with_think_time")
		}
		sizes = append(sizes, fmt.Sprintf("%d/%d", na, nt))
	}
	r.Info["bytes(app/target)"] = sizes
	// In one run of three with several connections they are all opened at the same instant - at a moment when
	// the client has no session yet - and transfer at the same time: every stream must be delivered to its own
	// peer, complete and in order, whatever its neighbours on the session are doing. (Not over DNS, see C03.)
	if nconn > 1 && !CarrierIsDNS(carrier) && c.Chance(1, 3, "concurrent") {
		r.Info["concurrent"] = true
		conns := make([]*LConn, nconn)
		var total int64
		for i := range conns {
			if sumWrites(plans[i].app) == 0 {
				// the target learns which connection it serves from the first byte the application sends
				plans[i].app = append([]Op{{Kind: "write", N: 1}}, plans[i].app...)
			}
			conns[i] = &LConn{I: i, TIdx: 0, Lsn: lsn, Mode: "active", PlanA: plans[i].app, PlanT: plans[i].tgt}
			total += sumWrites(plans[i].app) + sumWrites(plans[i].tgt)
		}
		cs := NewConnSet(r, w, "app", conns)
		cs.Together = true
		extra := func() []Ev { return append(cs.OpenEv(nil), cs.PeerEvents()...) }
		goal := func() bool {
			cs.Assign()
			if !cs.AllOpened() {
				return false
			}
			for _, lc := range conns {
				if !cs.Complete(lc, false) {
					return false
				}
			}
			return true
		}
		out := r.Drive(pol, goal, extra, 10*time.Minute, 2*time.Hour)
		if out == Aborted {
			return
		}
		if out != GoalMet {
			r.FailSig("undelivered", sigC01(r, w, carrier, 0, 0)+" concurrent", "%s: %d connections opened at the same instant over %s did not all complete: %v", out, nconn, carrier, cs.Describe())
			return
		}
		cs.CheckPairing("pairing")
		if r.Failed() {
			return
		}
		r.NonTriv = true
		r.CountN("connections_completed", nconn)
		r.CountN("bytes_moved", int(total))
		r.Count("runs_with_concurrent_connections")
		return
	}
	tgt.Plan = func(j int) []Op {
		if j < len(plans) {
			return plans[j].tgt
		}
		return nil
	}
	var appKeys []Candidate
	for i := 0; i < nconn; i++ {
		appKeys = append(appKeys, AppKey(r.Seed, i))
	}
	tgt.Cands = func() []Candidate { return appKeys }
	var tgtKeys []Candidate
	for j := 0; j < nconn+2; j++ {
		tgtKeys = append(tgtKeys, TargetKey(r.Seed, tgt.Index, j))
	}

	idle := 10 * time.Minute
	limit := 2 * time.Hour
	for i := 0; i < nconn && !r.Failed(); i++ {
		conn, err := w.DialApp(lsn)
		if err != nil {
			r.Fail("connect", "application could not connect to the client listener: %v", err)
			return
		}
		app := NewPeer(r, fmt.Sprintf("app%d", i), "app", conn, AppKey(r.Seed, i), tgtKeys)
		app.Script = plans[i].app
		r.registerPeer(app)
		wantA, wantT := sumWrites(plans[i].app), sumWrites(plans[i].tgt)
		var tp *Peer
		goal := func() bool {
			if tp == nil {
				ps := tgt.Peers()
				if len(ps) > i {
					tp = ps[i]
				}
			}
			if tp == nil {
				return false
			}
			as, ar, _, _, _, _ := app.Snapshot()
			ts, tr, _, _, _, _ := tp.Snapshot()
			return as == wantA && ts == wantT && ar == wantT && tr == wantA
		}
		extra := func() []Ev {
			var evs []Ev
			if e, ok := app.NextEv(); ok {
				evs = append(evs, e)
			}
			for _, p := range tgt.Peers() {
				if e, ok := p.NextEv(); ok {
					evs = append(evs, e)
				}
			}
			return evs
		}
		out := r.Drive(pol, goal, extra, idle, limit)
		if out == Aborted {
			return
		}
		if out != GoalMet {
			as, ar, aeof, aerr, _, _ := app.Snapshot()
			det := fmt.Sprintf("connection %d over %s: app sent %d/%d received %d/%d (eof=%v err=%v)", i, carrier, as, wantA, ar, wantT, aeof, aerr)
			if tp != nil {
				ts, tr, teof, terr, _, _ := tp.Snapshot()
				det += fmt.Sprintf("; target sent %d/%d received %d/%d (eof=%v err=%v)", ts, wantT, tr, wantA, teof, terr)
			} else {
				det += "; the target never accepted a connection"
			}
			r.FailSig("undelivered", sigC01(r, w, carrier, wantA, wantT), "%s: %s", out, det)
			return
		}
		if wantA+wantT > 0 {
			r.NonTriv = true
		}
		// pairing must be mutual
		_, _, _, _, _, ap := app.Snapshot()
		_, _, _, _, _, tpk := tp.Snapshot()
		if wantT > 0 && ap != tp.TxKey {
			r.Fail("pairing", "app%d received the stream of another target connection", i)
		}
		if wantA > 0 && tpk != app.TxKey {
			r.Fail("pairing", "target connection %d received the stream of another application", i)
		}
		r.Count("connections_completed")
		r.CountN("bytes_moved", int(wantA+wantT))
		// finish this logical connection: the application closes
		app.Do(Op{Kind: "close"})
		r.Drive(&NetPolicy{Whole: true}, func() bool {
			_, _, eof, rerr, _, _ := tp.Snapshot()
			return eof || rerr != nil
		}, nil, 2*time.Minute, 10*time.Minute)
	}
}

// sigC01 derives the diagnosis signature of an undelivered stream.
func sigC01(r *Run, w *World, carrier string, wantA, wantT int64) string {
	return "carrier=" + carrier
}
