package verif

import (
	"errors"
	"fmt"
	"io"
	"net"
	"strings"
	"time"

	"github.com/bokysan/socketace/v2/internal/streams"
)

func init() { Scenarios["C19"] = scenarioC19 }

// fakeRes is the counting underlying resource.
type fakeRes struct {
	name      string
	closes    int
	closeFail int // 0 never, 1 first close fails, 2 always fails
	ioFail    bool
	short     bool
	reads     int
	writes    int
	preClosed bool          // reports "use of closed" on every call, as an already-closed descriptor does
	stalled   chan struct{} // non-nil: a Write stays in flight until the resource is closed (the peer does not drain)
}

var errFakeClose = errors.New("fake: close failed")
var errFakeIO = errors.New("fake: i/o error")

func (f *fakeRes) Read(p []byte) (int, error) {
	f.reads++
	if f.preClosed || f.closes > 0 {
		return 0, errors.New("read fake: use of closed network connection")
	}
	if f.ioFail {
		return 0, errFakeIO
	}
	if len(p) == 0 {
		return 0, nil
	}
	n := len(p)
	if f.short && n > 1 {
		n = 1
	}
	if f.reads > 3 {
		return 0, io.EOF
	}
	for i := 0; i < n; i++ {
		p[i] = byte(f.reads)
	}
	return n, nil
}

func (f *fakeRes) Write(p []byte) (int, error) {
	f.writes++
	if f.preClosed || f.closes > 0 {
		return 0, errors.New("write fake: use of closed network connection")
	}
	if f.stalled != nil {
		// the peer does not drain: the write stays in flight until the resource is closed
		<-f.stalled
		return 0, errors.New("write fake: use of closed network connection")
	}
	if f.ioFail {
		return 0, errFakeIO
	}
	if f.short && len(p) > 1 {
		return 1, io.ErrShortWrite
	}
	return len(p), nil
}

func (f *fakeRes) Close() error {
	f.closes++
	if f.stalled != nil && f.closes == 1 {
		close(f.stalled)
	}
	if f.preClosed {
		return errors.New("close fake: use of closed network connection")
	}
	if f.closeFail == 2 || (f.closeFail == 1 && f.closes == 1) {
		return errFakeClose
	}
	return nil
}

func (f *fakeRes) LocalAddr() net.Addr                { return &net.UnixAddr{Name: f.name, Net: "fake"} }
func (f *fakeRes) RemoteAddr() net.Addr               { return &net.UnixAddr{Name: f.name + "-peer", Net: "fake"} }
func (f *fakeRes) SetDeadline(t time.Time) error      { return nil }
func (f *fakeRes) SetReadDeadline(t time.Time) error  { return nil }
func (f *fakeRes) SetWriteDeadline(t time.Time) error { return nil }

// node is one wrapper (or leaf) of a composition.
type node struct {
	id       int
	kind     string // conn, stream, reader, writer
	ctor     string
	val      interface{}
	children []*node
	parent   *node
	leaves   []*fakeRes // fakes this node is responsible for closing
	closedOn bool       // Close has been called on this very node
	aliasOf  *node      // constructor returned its argument unchanged (re-wrapping an already-safe wrapper)
}

type c19gen struct {
	c       *Chooser
	nodes   []*node
	fakes   []*fakeRes
	extras  []*fakeRes // resources that must never be closed by the composition
	tracked int        // leaves that have a Closed() method of their own
	// connections a StreamWrappedConnection borrows from an owner outside the composition, who may close
	// them at any time (the composition itself must not)
	borrowed []*c19borrowed
}

type c19borrowed struct {
	fake        *fakeRes
	conn        net.Conn // what the owner holds and what was lent: a Safe/Named wrapper over fake
	desc        string
	ownerClosed bool
}

// fakeTracked is a resource that keeps track of its own closed state, as a multiplexer stream or the project's
// own reader+writer pair does: it has a Closed() method. A wrapper that finds one must still close it exactly
// once and answer Closed() from its own state.
type fakeTracked struct{ *fakeRes }

func (f fakeTracked) Closed() bool { return f.fakeRes.closes > 0 }

func (g *c19gen) newFake() *fakeRes {
	f := &fakeRes{name: fmt.Sprintf("f%d", len(g.fakes)+len(g.extras))}
	switch g.c.Pick(9, "fake-fault") {
	case 8:
		f.stalled = make(chan struct{})
	case 1:
		f.closeFail = 1
	case 2:
		f.closeFail = 2
	case 3:
		f.ioFail = true
	case 4:
		f.short = true
	case 5:
		f.preClosed = true
	}
	g.fakes = append(g.fakes, f)
	return f
}

func (g *c19gen) add(n *node) *node {
	n.id = len(g.nodes)
	for _, ch := range n.children {
		ch.parent = n
		n.leaves = append(n.leaves, ch.leaves...)
	}
	g.nodes = append(g.nodes, n)
	return n
}

// build returns a node of the wanted kind with at most depth wrapper levels.
func (g *c19gen) build(kind string, depth int) *node {
	c := g.c
	if depth <= 0 || c.Chance(1, 6, "leaf") {
		f := g.newFake()
		if c.Chance(1, 5, "resource-tracks-its-closed-state") {
			g.tracked++
			return g.add(&node{kind: kind, ctor: "fake", val: fakeTracked{f}, leaves: []*fakeRes{f}})
		}
		return g.add(&node{kind: kind, ctor: "fake", val: f, leaves: []*fakeRes{f}})
	}
	switch kind {
	case "conn":
		switch c.Pick(5, "conn-ctor") {
		case 0:
			ch := g.build("conn", depth-1)
			v := streams.NewSafeConnection(ch.val.(net.Conn))
			return g.wrap("conn", "SafeConnection", v, ch)
		case 1:
			ch := g.build("conn", depth-1)
			return g.wrap("conn", "NamedConnection", streams.NewNamedConnection(ch.val.(net.Conn), fmt.Sprintf("n%d", len(g.nodes))), ch)
		case 2:
			ch := g.build("conn", depth-1)
			return g.wrap("conn", "BufferedInputConnection", streams.NewBufferedInputConnection(ch.val.(net.Conn)), ch)
		case 3:
			ch := g.build("stream", depth-1)
			la, ra := &net.UnixAddr{Name: "l", Net: "sim"}, &net.UnixAddr{Name: "r", Net: "sim"}
			return g.wrap("conn", "SimulatedConnection", streams.NewSimulatedConnection(ch.val.(io.ReadWriteCloser), la, ra), ch)
		default:
			ch := g.build("stream", depth-1)
			if c.Chance(1, 2, "borrowed-is-wrapped") {
				// the borrowed connection is itself a wrapper that knows whether it is closed
				bf := &fakeRes{name: fmt.Sprintf("lent%d", len(g.borrowed))}
				var lent net.Conn = streams.NewSafeConnection(bf)
				desc := "SafeConnection(" + bf.name + ")"
				if c.Chance(1, 2, "borrowed-named") {
					lent = streams.NewNamedConnection(lent, "lent")
					desc = "NamedConnection(" + desc + ")"
				}
				g.borrowed = append(g.borrowed, &c19borrowed{fake: bf, conn: lent, desc: desc})
				return g.wrap("conn", "StreamWrappedConnection[over "+desc+"]", streams.NewStreamConnection(ch.val.(io.ReadWriteCloser), lent), ch)
			}
			under := &fakeRes{name: fmt.Sprintf("under%d", len(g.extras))}
			g.extras = append(g.extras, under)
			return g.wrap("conn", "StreamWrappedConnection", streams.NewStreamConnection(ch.val.(io.ReadWriteCloser), under), ch)
		}
	case "stream":
		switch c.Pick(4, "stream-ctor") {
		case 0:
			ch := g.build(g.anyOf("stream", "conn"), depth-1)
			return g.wrap("stream", "SafeStream", streams.NewSafeStream(ch.val.(io.ReadWriteCloser)), ch)
		case 1:
			ch := g.build(g.anyOf("stream", "conn"), depth-1)
			return g.wrap("stream", "NamedStream", streams.NewNamedStream(ch.val.(io.ReadWriteCloser), fmt.Sprintf("n%d", len(g.nodes))), ch)
		case 2:
			rd := g.build(g.anyOf("reader", "stream", "conn"), depth-1)
			wr := g.build(g.anyOf("writer", "stream", "conn"), depth-1)
			v := streams.NewReadWriteCloser(rd.val.(io.ReadCloser), wr.val.(io.WriteCloser))
			return g.add(&node{kind: "stream", ctor: "ReadWriteCloser", val: v, children: []*node{rd, wr}})
		default:
			return g.build("conn", depth) // a connection is a stream
		}
	case "reader":
		switch c.Pick(3, "reader-ctor") {
		case 0:
			ch := g.build(g.anyOf("reader", "stream", "conn"), depth-1)
			return g.wrap("reader", "SafeReader", streams.NewSafeReader(ch.val.(io.ReadCloser)), ch)
		case 1:
			ch := g.build(g.anyOf("reader", "stream", "conn"), depth-1)
			return g.wrap("reader", "NamedReader", streams.NewNamedReader(ch.val.(io.ReadCloser), fmt.Sprintf("n%d", len(g.nodes))), ch)
		default:
			return g.build("stream", depth)
		}
	default: // writer
		switch c.Pick(3, "writer-ctor") {
		case 0:
			ch := g.build(g.anyOf("writer", "stream", "conn"), depth-1)
			return g.wrap("writer", "SafeWriter", streams.NewSafeWriter(ch.val.(io.WriteCloser)), ch)
		case 1:
			ch := g.build(g.anyOf("writer", "stream", "conn"), depth-1)
			return g.wrap("writer", "NamedWriter", streams.NewNamedWriter(ch.val.(io.WriteCloser), fmt.Sprintf("n%d", len(g.nodes))), ch)
		default:
			return g.build("stream", depth)
		}
	}
}

func (g *c19gen) anyOf(kinds ...string) string { return kinds[g.c.Pick(len(kinds), "child-kind")] }

func (g *c19gen) wrap(kind, ctor string, v interface{}, ch *node) *node {
	n := &node{kind: kind, ctor: ctor, val: v, children: []*node{ch}}
	if v == ch.val {
		n.aliasOf = ch // the constructor recognised an already-safe wrapper and returned it
	}
	return g.add(n)
}

func (n *node) path() string {
	if len(n.children) == 0 {
		return n.ctor
	}
	var cs []string
	for _, c := range n.children {
		cs = append(cs, c.path())
	}
	return n.ctor + "(" + strings.Join(cs, ", ") + ")"
}

// related reports whether a Close has been issued on n, an ancestor or a descendant (or an alias of them).
func closeIssuedAround(n *node) bool {
	for a := n; a != nil; a = a.parent {
		if a.closedOn {
			return true
		}
	}
	var down func(x *node) bool
	down = func(x *node) bool {
		if x.closedOn {
			return true
		}
		for _, c := range x.children {
			if down(c) {
				return true
			}
		}
		return false
	}
	return down(n)
}

func same(n *node) *node {
	for n.aliasOf != nil {
		n = n.aliasOf
	}
	return n
}

func scenarioC19(r *Run) {
	c := r.Ch
	g := &c19gen{c: c}
	rootKind := []string{"conn", "stream", "reader", "writer"}[c.Pick(4, "root-kind")]
	root := g.build(rootKind, 1+c.Pick(4, "depth"))
	r.Info["composition"] = root.path()
	var faults []string
	for _, f := range g.fakes {
		faults = append(faults, fmt.Sprintf("%s:closeFail=%d,ioFail=%v,short=%v,preClosed=%v", f.name, f.closeFail, f.ioFail, f.short, f.preClosed))
	}
	r.Info["resources"] = faults
	r.AddShape(root.path())
	nops := 1 + c.Pick(14, "ops")
	var hist []string
	check := func(when string) bool {
		for _, f := range g.fakes {
			if f.closes > 1 {
				r.FailSig("closed-more-than-once", "ctor="+root.ctor, "%s: resource %s has been closed %d times; composition %s; history %v", when, f.name, f.closes, root.path(), hist)
				return false
			}
		}
		for _, b := range g.borrowed {
			want := 0
			if b.ownerClosed {
				want = 1
			}
			if b.fake.closes > want {
				r.FailSig("foreign-resource-closed", "ctor="+root.ctor, "%s: the connection %s that a StreamWrappedConnection only borrows was closed by the composition; composition %s; history %v", when, b.desc, root.path(), hist)
				return false
			}
		}
		for _, f := range g.extras {
			if f.closes > 0 {
				r.FailSig("foreign-resource-closed", "ctor="+root.ctor, "%s: the connection a StreamWrappedConnection only borrows was closed; composition %s; history %v", when, root.path(), hist)
				return false
			}
		}
		return true
	}
	// Every call runs on its own goroutine and is given five simulated seconds: a Write against a stalled
	// peer legitimately stays in flight; a Close or a status query never may (closing is what ends it).
	call := func(f func()) bool {
		done := make(chan struct{})
		go func() {
			defer close(done)
			f()
		}()
		select {
		case <-done:
			return true
		case <-time.After(5 * time.Second):
			return false
		}
	}
	for i := 0; i < nops && !r.Failed(); i++ {
		if len(g.borrowed) > 0 && c.Chance(1, 5, "owner-closes-lent-connection") {
			// the owner of a borrowed connection closes it: none of the composition's business, its own
			// resources and status must be unaffected
			b := g.borrowed[c.Pick(len(g.borrowed), "which-lent")]
			b.conn.Close()
			b.ownerClosed = true
			hist = append(hist, "owner.Close("+b.desc+")")
			r.AddShape("OwnerClose")
			r.Count("owner_closes_of_borrowed_connection")
			continue
		}
		n := g.nodes[c.Pick(len(g.nodes), "op-node")]
		if n.ctor == "fake" {
			// operations are addressed to wrappers; the bare resource is the "disk"
			continue
		}
		op := []string{"Close", "Close", "Close", "Closed", "Read", "Write", "String", "TryClose", "LogClose", "Closed"}[c.Pick(10, "op")]
		label := fmt.Sprintf("%s#%d.%s", n.ctor, n.id, op)
		hist = append(hist, label)
		r.AddShape(op)
		sn := same(n)
		switch op {
		case "Close", "TryClose", "LogClose":
			cl, ok := n.val.(io.Closer)
			if !ok {
				continue
			}
			already := sn.closedOn
			anyFail := false
			for _, f := range n.leaves {
				if f.closeFail > 0 || f.preClosed {
					anyFail = true
				}
			}
			var err error
			if !call(func() {
				switch op {
				case "Close":
					err = cl.Close()
				case "TryClose":
					streams.TryClose(cl)
				default:
					err = streams.LogClose(cl)
				}
			}) {
				r.FailSig("close-does-not-return", "ctor="+n.ctor, "%s had not returned after 5 s (a Write may be in flight against a peer that does not drain: closing is what must end it); composition %s; history %v", label, root.path(), hist)
				return
			}
			sn.closedOn = true
			n.closedOn = true
			if already && err != nil {
				r.FailSig("repeat-close-fails", "ctor="+n.ctor, "%s returned %v on a wrapper that had been closed before; composition %s; history %v", label, err, root.path(), hist)
				return
			}
			if !already && err != nil && !anyFail {
				r.FailSig("close-fails", "ctor="+n.ctor, "%s returned %v although no underlying resource fails; composition %s; history %v", label, err, root.path(), hist)
				return
			}
			for _, f := range n.leaves {
				if f.closes != 1 {
					r.FailSig("not-closed-exactly-once", "ctor="+n.ctor, "after %s resource %s has been closed %d times (expected exactly 1); composition %s; history %v", label, f.name, f.closes, root.path(), hist)
					return
				}
			}
			if q, ok := n.val.(streams.Closed); ok && !q.Closed() {
				r.FailSig("closed-status-false-after-close", "ctor="+n.ctor, "after %s its Closed() answers false; composition %s; history %v", label, root.path(), hist)
				return
			}
			r.Count("closes_checked")
		case "Closed":
			q, ok := n.val.(streams.Closed)
			if !ok {
				continue
			}
			got := false
			if !call(func() { got = q.Closed() }) {
				r.FailSig("close-does-not-return", "ctor="+n.ctor, "%s had not returned after 5 s; composition %s; history %v", label, root.path(), hist)
				return
			}
			if sn.closedOn && !got {
				r.FailSig("closed-status-false-after-close", "ctor="+n.ctor, "%s answers false after Close on that wrapper; composition %s; history %v", label, root.path(), hist)
				return
			}
			if !closeIssuedAround(n) && !closeIssuedAround(sn) && got {
				r.FailSig("closed-status-true-before-close", "ctor="+n.ctor, "%s answers true although nothing in its chain has been closed; composition %s; history %v", label, root.path(), hist)
				return
			}
			r.Count("status_checked")
		case "Read":
			if rd, ok := n.val.(io.Reader); ok {
				rbuf := make([]byte, 8)
				call(func() { rd.Read(rbuf) })
			}
		case "Write":
			if wr, ok := n.val.(io.Writer); ok {
				if !call(func() { wr.Write([]byte{1, 2, 3}) }) {
					r.Count("writes_left_in_flight")
				}
			}
		case "String":
			if st, ok := n.val.(fmt.Stringer); ok {
				_ = st.String()
			}
		}
		if !check("after " + label) {
			return
		}
	}
	r.Info["history"] = hist
	r.NonTriv = len(hist) > 0
}
