module github.com/bokysan/socketace/v2/verif

go 1.26.8

godebug randseednop=0

require github.com/bokysan/socketace/v2 v2.0.0

replace github.com/bokysan/socketace/v2 => ../repo

replace github.com/xtaci/kcp-go/v5 => ../kcp-go

replace github.com/xtaci/smux => ../smux
