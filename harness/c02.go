package verif

import (
	"fmt"
	"github.com/xtaci/smux"
	"time"
)

func init() { Scenarios["C02"] = scenarioC02 }

// pickCarrierLight picks a carrier for multi-connection worlds (DNS gets a small share: slow).
func pickCarrierLight(r *Run) string {
	k := r.Ch.Pick(16, "carrier")
	switch {
	case k < 4:
		return "tcp"
	case k < 5:
		return "unix"
	case k < 7:
		return "tcp+tls"
	case k < 10:
		return "ws"
	case k < 11:
		return "wss"
	case k < 12:
		return "stdio"
	case k < 14:
		return "udp"
	case k < 15:
		return "udp+pass"
	}
	return "dns+udp"
}

func scenarioC02(r *Run) {
	c := r.Ch
	carrier := pickCarrierLight(r)
	cfg := WorldCfg{Carrier: carrier}
	securityFor(r, carrier, &cfg)
	cfg.Channels = []ChanCfg{
		{Name: "alpha", Target: "tcp://" + TargetIP + ":7001"},
		{Name: "beta", Target: "tcp://" + TargetIP + ":7002"},
	}
	cfg.Listeners = []LsnCfg{
		{Channel: "alpha", Kind: "tcp", Addr: "127.0.0.1:6001"},
		{Channel: "beta", Kind: "tcp", Addr: "127.0.0.1:6002"},
		// a listener for a channel the server does not offer: connections to it are refused
		{Channel: "ghost", Kind: "tcp", Addr: "127.0.0.1:6003"},
		// a channel whose target does not answer the connect (SYN lost): the server's dial hangs for the
		// operating system's connect timeout, about two minutes
		{Channel: "omega", Kind: "tcp", Addr: "127.0.0.1:6004"},
	}
	cfg.Channels = append(cfg.Channels, ChanCfg{Name: "omega", Target: "tcp://" + TargetIP + ":7003"})
	r.Net.SetDialFate("tcp", TargetIP+":7003", 2)
	// a channel whose target refuses every connect (the service is down)
	cfg.Listeners = append(cfg.Listeners, LsnCfg{Channel: "down", Kind: "tcp", Addr: "127.0.0.1:6005"})
	cfg.Channels = append(cfg.Channels, ChanCfg{Name: "down", Target: "tcp://" + TargetIP + ":7004"})
	r.Net.SetDialFate("tcp", TargetIP+":7004", 1)
	k := 2 + c.Pick(5, "k")
	maxPayload := payloadCap(r, carrier) / 4
	if maxPayload > 192*1024 {
		maxPayload = 192 * 1024
	}
	crowd := false
	if !CarrierIsDNS(carrier) && !CarrierIsKCP(carrier) && c.Chance(1, 10, "crowd") {
		// "any number of logical connections": a crowd of 18-40 with small payloads, many of which close
		// in mid-transfer while the rest carry on
		k = 18 + c.Pick(23, "crowd-size")
		maxPayload = 4096
		crowd = true
		r.Count("runs_with_a_crowd_of_connections")
	}
	r.Net.DefaultCap = c.OneOf("sockbuf", 65536, 0, 4096, 262144)
	pol := &NetPolicy{ChunkBias: c.Pick(3, "chunk-bias")}
	if CarrierIsKCP(carrier) && c.Chance(1, 3, "benign-faults") {
		pol.Reorder = true
		pol.LossBudget = c.Pick(4, "loss-budget")
		pol.DupBudget = c.Pick(4, "dup-budget")
	}
	stallFault := c.Chance(1, 8, "write-stall-fault")
	first := []string{"app", "target"}[c.Pick(2, "first-writer")]

	w, err := BuildWorld(r, cfg)
	if err != nil {
		r.Fail("world-setup", "could not build world: %v", err)
		return
	}
	// One run in twelve (stream carriers) starts with a long history on the session: 260-400 logical connections,
	// one after the other, to the channel whose target is down. Each is refused; none may cost the session
	// anything that the connections made afterwards need.
	if !CarrierIsDNS(carrier) && !CarrierIsKCP(carrier) && c.Chance(1, 12, "history-of-failed-connections") {
		nfail := 260 + c.Pick(140, "failed-connections")
		for i := 0; i < nfail; i++ {
			conn, err := w.DialApp(cfg.Listeners[4])
			if err != nil {
				r.Fail("connect", "application could not connect to the listener of the channel that is down: %v", err)
				return
			}
			over := false
			go func() {
				buf := make([]byte, 64)
				for {
					if _, err := conn.Read(buf); err != nil {
						over = true
						return
					}
				}
			}()
			for w := 0; w < 100 && !over; w++ {
				r.RunFor(100 * time.Millisecond)
			}
			if !over {
				r.FailSig("progress", "phase=history-of-failed-connections carrier="+carrierClass(carrier), "connection %d of %d to the channel whose target refuses was neither served nor ended within 10 s", i, nfail)
				return
			}
			conn.Close()
		}
		r.CountN("failed_connections_before_the_others", nfail)
	}
	conns := make([]*LConn, k)
	active := 0
	pausedBudgetApp, pausedBudgetTgt := 3<<20, 3<<20
	for i := range conns {
		ti := c.Pick(2, "channel")
		lc := &LConn{I: i, TIdx: ti, Lsn: cfg.Listeners[ti]}
		m := c.Pick(8, "mode")
		switch {
		case i == 0 && m < 4, m == 4:
			lc.Mode = "idle" // exchanges its one identifying byte, then stays open and silent
		case crowd && m >= 5:
			lc.Mode = []string{"closing-app", "closing-target"}[c.Pick(2, "closing-side")]
		case m == 5:
			lc.Mode = "paused-app"
		case m == 6:
			lc.Mode = "paused-target"
		case m == 7 && c.Chance(1, 4, "hanging-connect") && i > 0:
			// asks for the channel whose target does not answer: the server's connect hangs while the
			// others are opened and used
			lc.Mode = "hanging"
			lc.Lsn = cfg.Listeners[3]
		case m == 7 && c.Chance(1, 3, "refused") && i > 0:
			// asks for a channel the server refuses, while the others are open
			lc.Mode = "refused"
			lc.Lsn = cfg.Listeners[2]
		case m == 7 && c.Chance(1, 2, "closing"):
			// closes in the middle of its transfer while the others carry on
			lc.Mode = []string{"closing-app", "closing-target"}[c.Pick(2, "closing-side")]
		default:
			lc.Mode = "active"
			active++
		}
		na, nt := 0, 0
		if lc.Mode != "idle" {
			dir := c.Pick(3, "direction")
			if dir != 1 {
				na = PickSize(c, maxPayload, "app-bytes")
			}
			if dir != 0 {
				nt = PickSize(c, maxPayload, "tgt-bytes")
			}
			// Paused readers together must hold less than the multiplexer's shared 4 MiB receive buffer
			// (the property's own bound): at most 3 MiB per side and run. One paused reader in three is a
			// heavy one (0.6-3 MiB, whatever the tier's payload bound), on stream carriers.
			if lc.Mode == "paused-app" {
				if !CarrierIsKCP(carrier) && !CarrierIsDNS(carrier) && nt > 0 && c.Chance(1, 3, "heavy-pause") {
					nt = 600*1024 + c.Pick(2400*1024, "heavy-bytes")
					r.Count("heavy_paused_reader")
				}
				if nt > pausedBudgetApp {
					nt = pausedBudgetApp
				}
				pausedBudgetApp -= nt
			}
			if lc.Mode == "paused-target" {
				if !CarrierIsKCP(carrier) && !CarrierIsDNS(carrier) && na > 0 && c.Chance(1, 3, "heavy-pause") {
					na = 600*1024 + c.Pick(2400*1024, "heavy-bytes")
					r.Count("heavy_paused_reader")
				}
				if na > pausedBudgetTgt {
					na = pausedBudgetTgt
				}
				pausedBudgetTgt -= na
			}
		}
		if first == "app" && na == 0 {
			na = 1
		}
		if first == "target" && nt == 0 {
			nt = 1
		}
		lc.PlanA = Partition(c, na, "app-part")
		lc.PlanT = Partition(c, nt, "tgt-part")
		if lc.Mode == "closing-app" {
			k := c.Pick(len(lc.PlanA)+1, "close-after")
			lc.PlanA = append(append([]Op{}, lc.PlanA[:k]...), Op{Kind: "close"})
			if first == "app" && k == 0 {
				lc.PlanA = append([]Op{{Kind: "write", N: 1}}, lc.PlanA...)
			}
		}
		if lc.Mode == "closing-target" {
			k := c.Pick(len(lc.PlanT)+1, "close-after")
			lc.PlanT = append(append([]Op{}, lc.PlanT[:k]...), Op{Kind: "close"})
			if first == "target" && k == 0 {
				lc.PlanT = append([]Op{{Kind: "write", N: 1}}, lc.PlanT...)
			}
		}
		conns[i] = lc
	}
	if active == 0 {
		lc := conns[k-1]
		lc.Mode = "active"
		lc.Lsn = cfg.Listeners[lc.TIdx]
		strip := func(plan []Op) []Op {
			var out []Op
			for _, o := range plan {
				if o.Kind != "close" {
					out = append(out, o)
				}
			}
			return out
		}
		lc.PlanA, lc.PlanT = strip(lc.PlanA), strip(lc.PlanT)
	}
	cs := NewConnSet(r, w, first, conns)
	var modes []string
	for _, lc := range conns {
		modes = append(modes, fmt.Sprintf("%s:%s:%d/%d", lc.Lsn.Channel, lc.Mode, lc.WantA, lc.WantT))
	}
	r.Info["carrier"] = carrier
	r.Info["first_writer"] = first
	r.Info["connections"] = modes
	r.Info["sockbuf"] = r.Net.DefaultCap
	r.Info["write_stall_fault"] = stallFault

	beforeOpen := func(i int) {
		if stallFault && i > 0 {
			// arm a write-completion stall on the client's physical link: the
			// stream-open frame is on the wire before the writer returns
			for _, ls := range r.Net.LinkStates() {
				if isClientCarrierLink(w, ls) {
					r.ArmStall(ls.ID)
				}
			}
		}
	}
	extra := func() []Ev { return append(cs.OpenEv(beforeOpen), cs.PeerEvents()...) }
	// a connection that was closed on purpose in mid-transfer is over: nothing more is demanded of it
	ended := func(lc *LConn) bool {
		if lc.Mode == "hanging" {
			return lc.App != nil // nothing is demanded of it; the others must not wait for it
		}
		if lc.Mode == "refused" {
			if lc.App == nil {
				return false
			}
			_, _, eof, rerr, _, _ := lc.App.Snapshot()
			return eof || rerr != nil
		}
		if lc.Mode != "closing-app" && lc.Mode != "closing-target" {
			return false
		}
		if lc.App == nil {
			return false
		}
		_, _, aeof, aerr, aclosed, _ := lc.App.Snapshot()
		if lc.Mode == "closing-app" {
			return aclosed
		}
		if lc.Tp == nil {
			return aeof || aerr != nil
		}
		_, _, _, _, tclosed, _ := lc.Tp.Snapshot()
		return tclosed
	}
	goal := func() bool {
		cs.Assign()
		if !cs.AllOpened() {
			return false
		}
		for _, lc := range conns {
			if !cs.Complete(lc, true) && !ended(lc) {
				return false
			}
		}
		return true
	}
	// Phase 1: free interleaving (and benign faults). Progress is judged by the
	// outcome: with nothing enabled and nothing happening for 60 simulated
	// seconds while a non-paused connection is incomplete, it is stuck.
	// in one run of four (never together with the write-stall fault) the applications connect at the same
	// instant, and every lock operation of client and server is a seeded scheduling point
	if !stallFault && c.Chance(1, 4, "open-together") {
		cs.Together = true
		r.YieldsOn("yield-seed")
		r.Count("connections_opened_together")
	}
	t1 := r.SimElapsed()
	out := r.Drive(pol, goal, extra, 60*time.Second, 30*time.Minute)
	r.YieldsOff()
	hanging := false
	for _, lc := range conns {
		hanging = hanging || lc.Mode == "hanging"
	}
	if took := r.SimElapsed() - t1; out == GoalMet && hanging && !stallFault && !CarrierIsDNS(carrier) && took > 100*time.Second {
		// Nothing in this phase takes simulated minutes (deliveries are instantaneous, paused readers are
		// resumed later) - except the one connect that hangs for the operating system's 127 s. The other
		// connections must not have waited for it.
		r.FailSig("progress", "phase=behind-hanging-connect carrier="+carrierClass(carrier), "the connections next to one whose target did not answer the connect took %v to complete: they waited for it: %v", took, cs.Describe())
		return
	}
	if out == Aborted {
		return
	}
	if out != GoalMet {
		waiting := 0
		for _, lc := range conns {
			if lc.Opened && !cs.Complete(lc, true) && !ended(lc) {
				waiting++
			}
		}
		// diagnosis: did the multiplexer drop a first inbound frame of a stream it had not registered yet
		// (probe in the scratch copy of smux, see patch_smux.py)? That, and only that, is the listed finding.
		sig := fmt.Sprintf("carrier=%s stall_reply_before_release=%v early_first_frame_dropped=%v", carrierClass(carrier), r.Stats["stall_reply_before_release"] > 0, smux.SimEarlyFirstFrames > 0)
		r.FailSig("progress", sig, "%s: %d of %d concurrent connections on one session did not complete while the others were open: %v", out, waiting, k, cs.Describe())
		return
	}
	r.NonTriv = true
	r.Count("concurrent_worlds_completed")
	r.CountN("logical_connections", k)
	physical := 0
	for _, ls := range r.Net.LinkStates() {
		if isClientCarrierLink(w, ls) {
			physical++
		}
	}
	if physical > 1 {
		r.Fail("single-session", "%d physical stream connections to the server were opened for %d concurrent logical connections", physical, k)
	}
	// Phase 2: resume paused readers; everything must complete.
	for _, lc := range conns {
		if lc.Mode == "paused-app" {
			lc.App.Do(Op{Kind: "resume"})
		}
		if lc.Mode == "paused-target" && lc.Tp != nil {
			lc.Tp.Do(Op{Kind: "resume"})
		}
	}
	all := func() bool {
		for _, lc := range conns {
			if !cs.Complete(lc, false) && !ended(lc) {
				return false
			}
		}
		return true
	}
	out = r.Drive(&NetPolicy{Whole: true}, all, extra, 60*time.Second, 30*time.Minute)
	if out == Aborted {
		return
	}
	if out != GoalMet {
		r.FailSig("progress", "phase=resume carrier="+carrierClass(carrier), "%s: after resuming the paused readers not every connection completed: %v", out, cs.Describe())
		return
	}
	cs.CheckPairing("isolation")
	// Phase 3 (sampled): the connections stay open and silent for a while - longer than any handshake
	// or selection time-out of the code under test - and then each of them moves a little more data
	// both ways. A connection that is open is usable for as long as its two ends keep it open.
	if linger := c.OneOf("linger-s", 0, 0, 35, 90); linger > 0 && !CarrierIsDNS(carrier) {
		r.RunFor(time.Duration(linger) * time.Second)
		r.Count("lingering_runs")
		var live []*LConn
		for _, lc := range conns {
			if lc.Mode == "refused" || lc.Mode == "hanging" || lc.Mode == "closing-app" || lc.Mode == "closing-target" || lc.Tp == nil || lc.App == nil {
				continue
			}
			na, nt := 1+c.Pick(2000, "linger-app-bytes"), 1+c.Pick(2000, "linger-tgt-bytes")
			lc.App.Script = append(lc.App.Script, Op{Kind: "write", N: na})
			lc.Tp.Script = append(lc.Tp.Script, Op{Kind: "write", N: nt})
			lc.WantA += int64(na)
			lc.WantT += int64(nt)
			live = append(live, lc)
		}
		again := func() bool {
			for _, lc := range live {
				if !cs.Complete(lc, false) {
					return false
				}
			}
			return true
		}
		out = r.Drive(&NetPolicy{Whole: true}, again, extra, 60*time.Second, 30*time.Minute)
		if out == Aborted {
			return
		}
		if out != GoalMet {
			r.FailSig("progress", fmt.Sprintf("phase=linger carrier=%s", carrierClass(carrier)), "%s: after %d s of silence not every open connection could move data again: %v", out, linger, cs.Describe())
			return
		}
		cs.CheckPairing("isolation")
	}
	for _, lc := range conns {
		if lc.Mode == "hanging" {
			r.Count("hanging_connects_among_live_connections")
			if _, rc, _, _, _, _ := lc.App.Snapshot(); rc > 0 || lc.Tp != nil {
				r.Fail("isolation", "a connection for a channel whose target never answered received %d bytes", rc)
			}
		}
		if lc.Mode == "refused" {
			r.Count("refused_opens_among_live_connections")
			if _, rc, _, _, _, _ := lc.App.Snapshot(); rc > 0 || lc.Tp != nil {
				r.Fail("isolation", "a connection for a channel the server does not offer received %d bytes", rc)
			}
		}
	}
}
