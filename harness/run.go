package verif

import (
	"crypto/sha256"
	"encoding/hex"
	"fmt"
	"github.com/xtaci/smux"
	"hash"
	"io"
	stdlog "log"
	"math/rand"
	"runtime"
	"runtime/debug"
	"sort"
	"strings"
	"sync"
	"sync/atomic"
	"testing"
	"testing/cryptotest"
	"testing/synctest"
	"time"

	"github.com/bokysan/socketace/v2/internal/simrt"
	log "github.com/sirupsen/logrus"
	kcp "github.com/xtaci/kcp-go/v5"
)

// Violation is what an oracle reports.
type Violation struct {
	Property string `json:"property"`
	Rule     string `json:"rule"`
	Detail   string `json:"detail"`
	Step     int    `json:"step"`
	SimTime  string `json:"sim_time"`
	Sig      string `json:"sig,omitempty"` // diagnosis signature for known-findings matching
}

// Run is the context of one simulated execution.
type Run struct {
	Property string
	Tier     string
	Seed     uint64
	Idx      int
	Ch       *Chooser
	Net      *simrt.Network
	T        *testing.T

	mu      sync.Mutex
	Viol    *Violation
	Events  []string // bounded tail of the event log
	Head    []string // its first lines
	FullLog []string // whole event log (debugging only; nil = off)
	nEvents int
	digest  hash.Hash
	Stats   map[string]int // fault kinds fired, probes hit
	Shape   []string       // schedule shape (event kinds, bucketed) for distinctness
	Steps   int
	Start   time.Time
	Spins   []string
	Info    map[string]interface{} // scenario parameters (sample output)
	NonTriv bool

	cleanup    []func()
	hook       *spinHook
	bubble     string // id of this run's synctest bubble
	bodyDone   atomic.Bool
	bodyDoneCh chan struct{}
	// DgramFilter, if set, sees every datagram about to be delivered under any policy; true = consumed.
	DgramFilter  func(seq int) bool
	yields       int
	preempts     int
	MaxSteps     int
	peers        []*Peer
	simEnd       time.Duration
	frozenDigest string
	stallArmedAt map[int]int64 // link id -> bytes delivered on the reverse link when the stall was armed
}

// ArmStall arms a write-completion stall on link id and remembers how much
// the opposite direction had delivered, so that "the reply arrived before the
// write returned" can be recognised at release time.
func (r *Run) ArmStall(id int) {
	if r.stallArmedAt == nil {
		r.stallArmedAt = map[int]int64{}
	}
	if _, pending := r.stallArmedAt[id]; !pending {
		for _, ls := range r.Net.LinkStates() {
			if ls.ID == id {
				for _, rs := range r.Net.LinkStates() {
					if rs.ID == ls.Reverse {
						r.stallArmedAt[id] = rs.Delivered
					}
				}
			}
		}
	}
	r.Net.ArmStall(r.Net.Link(id))
	r.Count("fault_write_stall_armed")
}

func (r *Run) registerPeer(p *Peer) {
	r.mu.Lock()
	r.peers = append(r.peers, p)
	r.mu.Unlock()
}

func (r *Run) allPeers() []*Peer {
	r.mu.Lock()
	defer r.mu.Unlock()
	return append([]*Peer(nil), r.peers...)
}

func (r *Run) peerByKey(k uint64) *Peer {
	r.mu.Lock()
	defer r.mu.Unlock()
	for _, p := range r.peers {
		if p.TxKey == k {
			return p
		}
	}
	return nil
}

const maxEventTail = 400

func (r *Run) Logf(format string, args ...interface{}) {
	s := fmt.Sprintf(format, args...)
	r.mu.Lock()
	r.nEvents++
	line := fmt.Sprintf("%d @%s %s", r.Steps, r.SimNow(), s)
	if r.FullLog != nil {
		r.FullLog = append(r.FullLog, line)
	}
	if !strings.HasPrefix(s, "net: ") {
		// socket-level happenings inside one quiescence phase (e.g. the order in which a closing
		// session closes its streams: Go map iteration) are logged but are not driver decisions
		io.WriteString(r.digest, line)
		io.WriteString(r.digest, "\n")
	}
	if len(r.Head) < 150 {
		r.Head = append(r.Head, line)
	} else if len(r.Events) >= maxEventTail {
		copy(r.Events, r.Events[1:])
		r.Events = r.Events[:maxEventTail-1]
	}
	if len(r.Head) >= 150 && r.nEvents > 150 {
		r.Events = append(r.Events, line)
	}
	r.mu.Unlock()
}

func (r *Run) SimNow() string {
	if r.Start.IsZero() {
		return "0s"
	}
	return time.Since(r.Start).String()
}

func (r *Run) SimElapsed() time.Duration { return time.Since(r.Start) }

func (r *Run) Count(key string) {
	r.mu.Lock()
	r.Stats[key]++
	r.mu.Unlock()
}

func (r *Run) CountN(key string, k int) {
	r.mu.Lock()
	r.Stats[key] += k
	r.mu.Unlock()
}

// AddShape appends a symbol to the run's schedule shape. Consecutive repeats
// are collapsed, so two runs differing only in how many times the same kind
// of event happened in a row count as the same shape.
func (r *Run) AddShape(s string) {
	r.mu.Lock()
	if len(r.Shape) < 4096 && (len(r.Shape) == 0 || r.Shape[len(r.Shape)-1] != s) {
		r.Shape = append(r.Shape, s)
	}
	r.mu.Unlock()
}

// Fail records the first violation of the run.
func (r *Run) Fail(rule, format string, args ...interface{}) {
	r.mu.Lock()
	if r.Viol == nil {
		r.Viol = &Violation{Property: r.Property, Rule: rule, Detail: fmt.Sprintf(format, args...), Step: r.Steps, SimTime: r.SimNow()}
	}
	r.mu.Unlock()
	r.Logf("VIOLATION %s: %s", rule, fmt.Sprintf(format, args...))
}

func (r *Run) FailSig(rule, sig, format string, args ...interface{}) {
	r.Fail(rule, format, args...)
	r.mu.Lock()
	if r.Viol != nil && r.Viol.Rule == rule && r.Viol.Sig == "" {
		r.Viol.Sig = sig
	}
	r.mu.Unlock()
}

func (r *Run) Failed() bool {
	r.mu.Lock()
	defer r.mu.Unlock()
	return r.Viol != nil
}

// Digest identifies the event log of the run up to the scenario's verdict.
// Tear-down afterwards (shutting servers down walks Go maps, whose iteration
// order cannot be seeded) is not part of it.
func (r *Run) Digest() string {
	r.mu.Lock()
	defer r.mu.Unlock()
	if r.frozenDigest != "" {
		return r.frozenDigest
	}
	return hex.EncodeToString(r.digest.Sum(nil))[:16]
}

func (r *Run) freezeDigest() {
	r.mu.Lock()
	r.frozenDigest = hex.EncodeToString(r.digest.Sum(nil))[:16]
	r.mu.Unlock()
}

func (r *Run) OnCleanup(f func()) { r.cleanup = append(r.cleanup, f) }

// YieldsOn turns every lock acquisition and release of the code under test
// into a scheduling point until YieldsOff: one recorded choice seeds a private
// stream that decides, per point, whether the running goroutine steps aside
// for the other runnable ones (one in four does). Value 0 means no yields, so
// that minimisation removes them when they do not matter. The order in which
// the points are reached is itself deterministic (one P, no asynchronous
// preemption), so the schedule replays from the choice vector.
func (r *Run) YieldsOn(label string) {
	seed := uint64(r.Ch.Pick(1<<16, label))
	if seed == 0 {
		simrt.Yield = nil
		return
	}
	state := seed*0x9E3779B97F4A7C15 + uint64(r.Idx)
	simrt.Yield = func() {
		state += 0x9E3779B97F4A7C15
		z := state
		z = (z ^ (z >> 30)) * 0xBF58476D1CE4E5B9
		z = (z ^ (z >> 27)) * 0x94D049BB133111EB
		z ^= z >> 31
		if z&3 == 0 {
			r.yields++
			runtime.Gosched()
		}
	}
}

// PreemptOn is YieldsOn with one more kind of scheduling point: at one lock operation in 48 the goroutine is
// taken off the processor for 1-64 simulated microseconds, as a loaded host does to a thread. Under the
// simulator that is long enough for the network to make any number of round trips meanwhile (deliveries take
// no simulated time), so a goroutine can be overtaken between two of its critical sections by everything that
// depends on the peer answering - which Gosched alone, confined to goroutines that are runnable now, cannot do.
func (r *Run) PreemptOn(label string) {
	seed := uint64(r.Ch.Pick(1<<16, label))
	if seed == 0 {
		simrt.Yield = nil
		return
	}
	state := seed*0x9E3779B97F4A7C15 + uint64(r.Idx)
	simrt.Yield = func() {
		state += 0x9E3779B97F4A7C15
		z := state
		z = (z ^ (z >> 30)) * 0xBF58476D1CE4E5B9
		z = (z ^ (z >> 27)) * 0x94D049BB133111EB
		z ^= z >> 31
		switch {
		case z%48 == 0:
			r.preempts++
			time.Sleep(time.Duration(1+(z>>8)%64) * time.Microsecond)
		case z&3 == 0:
			r.yields++
			runtime.Gosched()
		}
	}
}

func (r *Run) YieldsOff() {
	if r.preempts > 0 {
		r.CountN("lock_preemptions", r.preempts)
		r.preempts = 0
	}
	simrt.Yield = nil
	if r.yields > 0 {
		r.CountN("lock_yields", r.yields)
		r.yields = 0
	}
}

// ---------------------------------------------------------------- spin detector

// socketace logs inside its accept loop; a goroutine that emits the same
// entry thousands of times without the driver making a decision in between is
// servicing a dead session in a busy loop. It is recorded and ended with
// Goexit so that the simulator (which needs every goroutine to block) goes on.
type spinHook struct {
	r       *Run
	mu      sync.Mutex
	counts  map[string]int
	phase   int
	at      int64
	Limit   int
	Capture bool
	lines   []string
}

func (h *spinHook) Levels() []log.Level { return log.AllLevels }

// Fire counts entries per message text within one instant: the same driver
// step and the same simulated time. Simulated time only advances when every
// goroutine of the bubble is blocked, so Limit entries of one text at one
// instant come from code that loops without ever blocking. Counting per text
// (not consecutive entries) matters: two spinning goroutines interleave.
func (h *spinHook) Fire(e *log.Entry) error {
	h.mu.Lock()
	msg := e.Message
	if h.Capture && len(h.lines) < 2000 {
		h.lines = append(h.lines, e.Level.String()+": "+msg)
	}
	ph, at := h.r.Steps, time.Now().UnixNano()
	if ph != h.phase || at != h.at || h.counts == nil {
		h.phase, h.at, h.counts = ph, at, map[string]int{}
	}
	h.counts[msg]++
	spin := h.counts[msg] >= h.Limit
	if spin {
		h.counts[msg] = 0
	}
	h.mu.Unlock()
	if spin {
		// a goroutine left over from an earlier run's bubble (it started to spin
		// during that run's teardown) is ended without blaming this run
		if b := ownBubble(); b != "" && h.r.bubble != "" && b != h.r.bubble {
			runtime.Goexit()
		}
		site := callSite()
		h.r.mu.Lock()
		h.r.Spins = append(h.r.Spins, fmt.Sprintf("%q at %s", truncate(msg, 120), site))
		h.r.mu.Unlock()
		h.r.Count("spin_detected")
		h.r.Logf("SPIN %q at %s: goroutine ended", truncate(msg, 80), site)
		runtime.Goexit()
	}
	return nil
}

func ownBubble() string {
	buf := make([]byte, 256)
	buf = buf[:runtime.Stack(buf, false)]
	return bubbleOf(string(buf))
}

func truncate(s string, n int) string {
	if len(s) > n {
		return s[:n] + "..."
	}
	return s
}

func callSite() string {
	pcs := make([]uintptr, 40)
	k := runtime.Callers(3, pcs)
	frames := runtime.CallersFrames(pcs[:k])
	for {
		f, more := frames.Next()
		if strings.Contains(f.Function, "bokysan/socketace/v2/internal/") && !strings.Contains(f.Function, "/simrt") {
			fn := f.Function[strings.LastIndex(f.Function, "/")+1:]
			return fn
		}
		if !more {
			break
		}
	}
	return "?"
}

// ---------------------------------------------------------------- run lifecycle

var logSetup sync.Once

// Execute runs body inside a fresh synctest bubble with a fresh network,
// clock (2000-01-01), seeded math/rand and crypto/rand, and tears everything
// down afterwards. It returns the number of goroutines that were still
// blocked when the bubble ended (leaked by the code under test).
func Execute(t *testing.T, r *Run, body func(r *Run)) (leaked int, hung bool) {
	r.bodyDoneCh = make(chan struct{})
	logSetup.Do(func() {
		log.SetOutput(io.Discard)
		stdlog.SetOutput(io.Discard) // net/http writes handshake errors to the standard logger
		log.SetLevel(log.TraceLevel)
		log.SetFormatter(&nullFormatter{})
	})
	r.T = t
	r.digest = sha256.New()
	r.Stats = map[string]int{}
	r.Info = map[string]interface{}{}
	if r.MaxSteps == 0 {
		r.MaxSteps = 20000
	}
	hook := &spinHook{r: r, Limit: 2000}
	r.hook = hook
	log.StandardLogger().ReplaceHooks(log.LevelHooks{})
	log.AddHook(hook)
	rand.Seed(int64(r.Seed*1000003 + uint64(r.Idx)))
	cryptotest.SetGlobalRandom(t, r.Seed*7919+uint64(r.Idx))

	debug.SetGCPercent(-1)
	defer func() {
		debug.SetGCPercent(100)
		runtime.GC()
	}()

	done := make(chan struct{})
	go func() {
		defer close(done)
		defer func() {
			if p := recover(); p != nil {
				s := fmt.Sprint(p)
				if strings.Contains(s, "blocked goroutines remain") || strings.Contains(s, "deadlock") {
					leaked = countLeaked(s)
					return
				}
				panic(p)
			}
		}()
		synctest.Test(t, func(t *testing.T) {
			r.Start = time.Now()
			r.bubble = ownBubble()
			smux.SimResetSessions()
			simrt.ReadFault = nil
			simrt.ReinitGlobals()
			n := simrt.NewNetwork()
			simrt.Cur = n
			r.Net = n
			n.Log = func(format string, args ...interface{}) { r.Logf("net: "+format, args...) }
			oldSched := kcp.SystemTimedSched
			kcp.SystemTimedSched = kcp.NewTimedSched(1)
			defer func() {
				kcp.SystemTimedSched.Close()
				kcp.SystemTimedSched = oldSched
			}()
			func() {
				defer func() {
					// orderly teardown whatever the body did
					simrt.Yield = nil
					for i := len(r.cleanup) - 1; i >= 0; i-- {
						func() {
							defer func() { recover() }()
							r.cleanup[i]()
						}()
					}
					r.cleanup = nil
					n.CloseAll()
					// let timers and tear-down paths run out (fake time)
					time.Sleep(3 * time.Minute)
					synctest.Wait()
				}()
				body(r)
				r.bodyDone.Store(true)
				close(r.bodyDoneCh)
				r.simEnd = time.Since(r.Start)
				r.freezeDigest()
			}()
		})
	}()
	// The bubble normally ends within milliseconds. Code under test that loops
	// without blocking once its network is gone (after the verdict, during
	// teardown) keeps the bubble alive: give up after a minute of real time, or
	// sooner when it is also eating memory (the collector is off during a run).
	limit := realAfter(60 * time.Second)
	// (The memory guard only ticks once the body is done: a goroutine outside the bubble that wakes on a real
	// timer while the run is in progress is put in front of the bubble's runnable goroutines and changes their
	// order - which made same-choice runs diverge.)
	var tickC <-chan time.Time
	bodyDone := r.bodyDoneCh
wait:
	for {
		select {
		case <-done:
			break wait
		case <-limit:
			hung = true
			break wait
		case <-bodyDone:
			bodyDone = nil
			tick := time.NewTicker(250 * time.Millisecond)
			defer tick.Stop()
			tickC = tick.C
		case <-tickC:
			var ms runtime.MemStats
			runtime.ReadMemStats(&ms)
			if ms.HeapAlloc > 2<<30 && r.bodyDone.Load() {
				hung = true
				break wait
			}
		}
	}
	simrt.Cur = nil
	return leaked, hung
}

func realAfter(d time.Duration) <-chan time.Time { return time.After(d) }

func countLeaked(s string) int {
	// the runtime panic text lists "goroutine N [...]" stanzas when GOTRACEBACK
	// allows; fall back to 1.
	c := strings.Count(s, "goroutine ")
	if c == 0 {
		return 1
	}
	return c
}

type nullFormatter struct{}

func (nullFormatter) Format(*log.Entry) ([]byte, error) { return nil, nil }

// GoroutineLedger groups the goroutines of the *current synctest bubble* by
// creation site, keeping only those created by socketace or its dependencies
// (harness, simulator and testing goroutines excluded).
func GoroutineLedger() map[string]int {
	buf := make([]byte, 1<<20)
	for {
		k := runtime.Stack(buf, true)
		if k < len(buf) {
			buf = buf[:k]
			break
		}
		buf = make([]byte, 2*len(buf))
	}
	out := map[string]int{}
	stanzas := strings.Split(string(buf), "\n\n")
	bubble := ""
	if len(stanzas) > 0 {
		bubble = bubbleOf(stanzas[0])
	}
	for i, g := range stanzas {
		if i == 0 || bubble == "" || bubbleOf(g) != bubble {
			continue
		}
		idx := strings.LastIndex(g, "created by ")
		if idx < 0 {
			continue
		}
		site := g[idx+len("created by "):]
		if nl := strings.IndexByte(site, '\n'); nl >= 0 {
			site = site[:nl]
		}
		if i := strings.Index(site, " in goroutine"); i >= 0 {
			site = site[:i]
		}
		if strings.Contains(site, "socketace/v2/verif") || strings.HasPrefix(site, "testing.") || strings.HasPrefix(site, "runtime.") {
			continue
		}
		if strings.Contains(site, "internal/simrt.") {
			continue
		}
		out[site]++
	}
	return out
}

// GoroutineStacks returns the stack stanzas of the goroutines of the current
// bubble whose creation site contains any of the given substrings (diagnostics
// attached to a leak verdict).
func GoroutineStacks(sites []string) []string {
	buf := make([]byte, 1<<20)
	for {
		k := runtime.Stack(buf, true)
		if k < len(buf) {
			buf = buf[:k]
			break
		}
		buf = make([]byte, 2*len(buf))
	}
	stanzas := strings.Split(string(buf), "\n\n")
	if len(stanzas) == 0 {
		return nil
	}
	bubble := bubbleOf(stanzas[0])
	var out []string
	for i, g := range stanzas {
		if i == 0 || bubbleOf(g) != bubble {
			continue
		}
		idx := strings.LastIndex(g, "created by ")
		if idx < 0 {
			continue
		}
		for _, s := range sites {
			if s != "" && strings.Contains(g[idx:], s) {
				if len(g) > 3000 {
					g = g[:3000]
				}
				out = append(out, g)
				break
			}
		}
	}
	return out
}

func bubbleOf(stanza string) string {
	nl := strings.IndexByte(stanza, '\n')
	if nl < 0 {
		nl = len(stanza)
	}
	hdr := stanza[:nl]
	i := strings.Index(hdr, "synctest bubble ")
	if i < 0 {
		return ""
	}
	rest := hdr[i+len("synctest bubble "):]
	j := strings.IndexAny(rest, ",] ")
	if j < 0 {
		return rest
	}
	return rest[:j]
}

func LedgerString(m map[string]int) string {
	keys := make([]string, 0, len(m))
	for k := range m {
		keys = append(keys, k)
	}
	sort.Strings(keys)
	var b strings.Builder
	for _, k := range keys {
		fmt.Fprintf(&b, "%s=%d; ", k, m[k])
	}
	return b.String()
}
