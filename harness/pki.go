package verif

import (
	"crypto/ed25519"
	"crypto/rand"
	"crypto/x509"
	"crypto/x509/pkix"
	"encoding/pem"
	"math/big"
	"net"
	"sync"
	"time"
)

// The simulated epoch is 2000-01-01T00:00:00Z (the synctest fake clock).
var Epoch = time.Date(2000, 1, 1, 0, 0, 0, 0, time.UTC)

type KeyPair struct {
	CertPEM string
	KeyPEM  string
	cert    *x509.Certificate
	key     ed25519.PrivateKey
}

type PKI struct {
	GoodCA, ForeignCA KeyPair
	// server certificates for host "server.test" / 10.0.0.1
	SrvGood      KeyPair // GoodCA, matching names (DNS and IP), valid at the epoch
	SrvGoodName  KeyPair // GoodCA, DNS name server.test only
	SrvGoodIP    KeyPair // GoodCA, IP 10.0.0.1 only
	SrvGoodDom   KeyPair // GoodCA, the DNS tunnel domain (the host of a dns:// upstream)
	SrvWrongHost KeyPair // GoodCA, names other.test / 10.9.9.9
	SrvUntrusted KeyPair // ForeignCA, matching names
	SrvExpired   KeyPair // GoodCA, matching names, NotAfter before the epoch
	SrvShort     KeyPair // GoodCA, matching names, expires 1h after the epoch (clock-jump cases)
	CliGood      KeyPair // client certificate by GoodCA
	CliForeign   KeyPair // client certificate by ForeignCA
	ImpostorCA   KeyPair // same subject name as GoodCA, another key: a client holding its certificates sends them when asked for GoodCA's
	CliImpostor  KeyPair // client certificate by ImpostorCA
	SrvExpiring  KeyPair // GoodCA, all matching names; valid now, NotAfter 200 s after the epoch (a run connects well before)
	SrvNotYet    KeyPair // GoodCA, all matching names; NotBefore 200 s after the epoch (not valid yet when a run connects)
}

var (
	pkiOnce sync.Once
	pki     *PKI
)

func mkCA(cn string, serial int64) KeyPair {
	// Ed25519 throughout: keys, signatures and therefore certificates and handshake messages have the same
	// length in every process and every handshake (ECDSA signatures are 70-72 bytes, which made the byte
	// counts on the wire - and with them the drawn segmentations - differ between runs of the same choices)
	pub, key, err := ed25519.GenerateKey(rand.Reader)
	if err != nil {
		panic(err)
	}
	tpl := &x509.Certificate{
		SerialNumber:          big.NewInt(serial),
		Subject:               pkix.Name{CommonName: cn},
		NotBefore:             Epoch.AddDate(-1, 0, 0),
		NotAfter:              Epoch.AddDate(10, 0, 0),
		IsCA:                  true,
		BasicConstraintsValid: true,
		KeyUsage:              x509.KeyUsageCertSign | x509.KeyUsageDigitalSignature,
	}
	der, err := x509.CreateCertificate(rand.Reader, tpl, tpl, pub, key)
	if err != nil {
		panic(err)
	}
	return pack(der, key)
}

func pack(der []byte, key ed25519.PrivateKey) KeyPair {
	c, err := x509.ParseCertificate(der)
	if err != nil {
		panic(err)
	}
	kb, err := x509.MarshalPKCS8PrivateKey(key)
	if err != nil {
		panic(err)
	}
	return KeyPair{
		CertPEM: string(pem.EncodeToMemory(&pem.Block{Type: "CERTIFICATE", Bytes: der})),
		KeyPEM:  string(pem.EncodeToMemory(&pem.Block{Type: "PRIVATE KEY", Bytes: kb})),
		cert:    c, key: key,
	}
}

func mkLeaf(ca KeyPair, cn string, serial int64, dns []string, ips []string, notBefore, notAfter time.Time, client bool) KeyPair {
	pub, key, err := ed25519.GenerateKey(rand.Reader)
	if err != nil {
		panic(err)
	}
	tpl := &x509.Certificate{
		SerialNumber: big.NewInt(serial),
		Subject:      pkix.Name{CommonName: cn},
		NotBefore:    notBefore,
		NotAfter:     notAfter,
		KeyUsage:     x509.KeyUsageDigitalSignature,
		DNSNames:     dns,
	}
	if client {
		tpl.ExtKeyUsage = []x509.ExtKeyUsage{x509.ExtKeyUsageClientAuth}
	} else {
		tpl.ExtKeyUsage = []x509.ExtKeyUsage{x509.ExtKeyUsageServerAuth}
	}
	for _, ip := range ips {
		tpl.IPAddresses = append(tpl.IPAddresses, net.ParseIP(ip))
	}
	der, err := x509.CreateCertificate(rand.Reader, tpl, ca.cert, pub, ca.key)
	if err != nil {
		panic(err)
	}
	return pack(der, key)
}

// GetPKI builds the fixtures once per worker process (call after
// cryptotest.SetGlobalRandom so that they are the same in every process).
func GetPKI() *PKI {
	pkiOnce.Do(func() {
		p := &PKI{}
		p.GoodCA = mkCA("verif good CA", 1)
		p.ForeignCA = mkCA("verif foreign CA", 2)
		nb, na := Epoch.AddDate(-1, 0, 0), Epoch.AddDate(5, 0, 0)
		names, ips := []string{"server.test"}, []string{"10.0.0.1"}
		p.SrvGood = mkLeaf(p.GoodCA, "server.test", 10, names, ips, nb, na, false)
		p.SrvGoodName = mkLeaf(p.GoodCA, "server.test", 15, names, nil, nb, na, false)
		p.SrvGoodIP = mkLeaf(p.GoodCA, "10.0.0.1", 16, nil, ips, nb, na, false)
		p.SrvGoodDom = mkLeaf(p.GoodCA, Domain, 17, []string{Domain}, nil, nb, na, false)
		p.SrvWrongHost = mkLeaf(p.GoodCA, "other.test", 11, []string{"other.test"}, []string{"10.9.9.9"}, nb, na, false)
		p.SrvUntrusted = mkLeaf(p.ForeignCA, "server.test", 12, names, ips, nb, na, false)
		p.SrvExpired = mkLeaf(p.GoodCA, "server.test", 13, names, ips, nb, Epoch.AddDate(0, -1, 0), false)
		p.SrvShort = mkLeaf(p.GoodCA, "server.test", 14, names, ips, nb, Epoch.Add(time.Hour), false)
		p.CliGood = mkLeaf(p.GoodCA, "client good", 20, nil, nil, nb, na, true)
		p.CliForeign = mkLeaf(p.ForeignCA, "client foreign", 21, nil, nil, nb, na, true)
		p.ImpostorCA = mkCA("verif good CA", 3)
		p.CliImpostor = mkLeaf(p.ImpostorCA, "client impostor", 22, nil, nil, nb, na, true)
		all := []string{"server.test", Domain}
		p.SrvExpiring = mkLeaf(p.GoodCA, "server.test", 30, all, ips, nb, Epoch.Add(200*time.Second), false)
		p.SrvNotYet = mkLeaf(p.GoodCA, "server.test", 31, all, ips, Epoch.Add(200*time.Second), na, false)
		pki = p
	})
	return pki
}
