package verif

import (
	"fmt"
	"io"
	"net"
	"sync"
	"time"
)

// ---------------------------------------------------------------- PRF payloads

func mix64(z uint64) uint64 {
	z = (z ^ (z >> 30)) * 0xbf58476d1ce4e5b9
	z = (z ^ (z >> 27)) * 0x94d049bb133111eb
	return z ^ (z >> 31)
}

// Content styles: 0 = pseudo-random bytes (all 256 values occur), 1 = runs of
// 0x00, 2 = runs of 0xFF, 3 = CRLF-heavy text, 4 = one repeated byte. In every
// style a byte depends on (key, offset) so that loss, duplication or
// reordering shifts the stream against its expectation.
// PrfForceRaw makes every stream pseudo-random throughout (C04 searches the wire for payload windows).
var PrfForceRaw bool

func prfFill(key uint64, off int64, dst []byte) {
	style := key & 7
	if PrfForceRaw {
		style = 0
	}
	for i := range dst {
		o := uint64(off) + uint64(i)
		w := mix64(key + (o>>3)*0x9e3779b97f4a7c15)
		b := byte(w >> ((o & 7) * 8))
		if o < 8 {
			// the first bytes stay pseudo-random in every style: they identify the stream
			dst[i] = b
			continue
		}
		st := style
		if !PrfForceRaw {
			// the style changes every 512 bytes, so a stream of a few KiB shows every kind of content
			st = (style + (o >> 9)) & 7
		}
		switch st {
		case 5:
			b = byte(o) // all 256 byte values in order
		case 6:
			// letters whose case matters
			b = "aAbBcCdDeEfFgGhHiIjJkKlLmMnNoOpPqQrRsStTuUvVwWxXyYzZ"[(o+uint64(b&3))%52]
		case 1:
			if (o>>6)&1 == 0 {
				b = 0
			}
		case 2:
			if (o>>5)&3 != 0 {
				b = 0xff
			}
		case 3:
			switch b & 7 {
			case 0:
				b = '\r'
			case 1:
				b = '\n'
			case 2:
				b = ' '
			default:
				b = 'a' + b%26
			}
		case 4:
			if (o>>8)&1 == 0 {
				b = byte(key >> 8)
			}
		}
		dst[i] = b
	}
}

func prfKey(seed uint64, kind string, a, b int) uint64 {
	h := seed
	for _, c := range []byte(kind) {
		h = mix64(h ^ uint64(c))
	}
	h = mix64(h ^ uint64(a)*0x100000001b3)
	h = mix64(h ^ uint64(b)*0xc6a4a7935bd1e995)
	return h
}

// ---------------------------------------------------------------- peers

// Op is one scripted operation of a peer.
type Op struct {
	Kind string // write, close, pause, resume
	N    int
}

// Candidate is the key of a stream some other peer may be writing to us.
type Candidate = uint64

// Peer is a harness-owned endpoint of an application-level connection: the
// local application's socket or the socket a target service accepted.
type Peer struct {
	r    *Run
	Name string
	Conn net.Conn
	Role string // app, target

	TxKey uint64
	Sent  int64 // bytes accepted by Write calls that returned
	TxErr error

	mu        sync.Mutex
	cond      *sync.Cond
	cands     []Candidate // who may be writing to us
	PairedKey uint64      // TxKey of the peer whose stream we are receiving (0: not yet known)
	Rcvd      int64
	RxEOF     bool
	RxErr     error
	RxEndAt   time.Duration // simulated time at which EOF or error was seen
	paused    bool
	busy      bool
	Closed    bool
	ClosedAt  time.Duration
	Script    []Op
	opq       chan Op
	readerEnd bool
	OpenedAt  time.Duration
	FirstRxAt time.Duration
	noVerify  bool
	scriptSet bool
	// CloseOnEnd makes the peer close its socket when it sees end-of-stream or an error, as a normal program does.
	CloseOnEnd bool
}

func NewPeer(r *Run, name, role string, conn net.Conn, txKey uint64, cands []Candidate) *Peer {
	p := &Peer{r: r, Name: name, Role: role, Conn: conn, TxKey: txKey, cands: cands, opq: make(chan Op, 1)}
	p.cond = sync.NewCond(&p.mu)
	p.OpenedAt = r.SimElapsed()
	go p.readLoop()
	go p.opLoop()
	return p
}

func (p *Peer) readLoop() {
	buf := make([]byte, 64*1024)
	exp := make([]byte, 64*1024)
	for {
		p.mu.Lock()
		for p.paused && !p.Closed {
			p.cond.Wait()
		}
		closed := p.Closed
		p.mu.Unlock()
		if closed {
			break
		}
		n, err := p.Conn.Read(buf)
		if n > 0 {
			p.verify(buf[:n], exp[:n])
		}
		if err != nil {
			p.mu.Lock()
			if err == io.EOF {
				p.RxEOF = true
			} else if !p.Closed {
				p.RxErr = err
			}
			p.RxEndAt = p.r.SimElapsed()
			doClose := p.CloseOnEnd && !p.Closed
			if doClose {
				p.Closed = true
				p.ClosedAt = p.r.SimElapsed()
			}
			p.mu.Unlock()
			if doClose {
				p.Conn.Close()
			}
			break
		}
	}
	p.mu.Lock()
	p.readerEnd = true
	p.mu.Unlock()
}

func (p *Peer) verify(got, exp []byte) {
	p.mu.Lock()
	defer p.mu.Unlock()
	if p.Rcvd == 0 {
		p.FirstRxAt = p.r.SimElapsed()
	}
	if p.noVerify {
		p.Rcvd += int64(len(got))
		return
	}
	// narrow the candidate set
	var keep []Candidate
	for _, c := range p.cands {
		prfFill(c, p.Rcvd, exp)
		if bytesEqual(got, exp) {
			keep = append(keep, c)
		}
	}
	if len(keep) == 0 {
		// diagnose against the first candidate (or the paired one)
		detail := "no candidate stream"
		if len(p.cands) > 0 {
			c := p.cands[0]
			cp := p.r.peerByKey(c)
			prfFill(c, p.Rcvd, exp)
			i := 0
			for i < len(got) && got[i] == exp[i] {
				i++
			}
			detail = fmt.Sprintf("first bad byte at stream offset %d (chunk of %d at %d): got 0x%02x want 0x%02x (stream of %s)",
				p.Rcvd+int64(i), len(got), p.Rcvd, got[i], exp[i], cp.nameOr())
			// does it match another known stream (cross-talk)?
			for _, o := range p.r.allPeers() {
				if o == p || o == cp {
					continue
				}
				prfFill(o.TxKey, p.Rcvd+int64(i), exp[:1])
				if exp[0] == got[i] && len(got)-i >= 4 {
					prfFill(o.TxKey, p.Rcvd+int64(i), exp[:len(got)-i])
					if bytesEqual(got[i:], exp[:len(got)-i]) {
						detail += fmt.Sprintf("; the bytes are those of %s at the same offset (cross-talk)", o.Name)
					}
				}
			}
		}
		p.r.Fail("stream-integrity", "%s received bytes that are not a continuation of its peer's stream: %s", p.Name, detail)
		p.noVerify = true
		p.Rcvd += int64(len(got))
		return
	}
	p.cands = keep
	if len(keep) == 1 && p.PairedKey == 0 {
		p.PairedKey = keep[0]
	}
	p.Rcvd += int64(len(got))
}

func (p *Peer) nameOr() string {
	if p == nil {
		return "?"
	}
	return p.Name
}

func bytesEqual(a, b []byte) bool {
	if len(a) != len(b) {
		return false
	}
	for i := range a {
		if a[i] != b[i] {
			return false
		}
	}
	return true
}

func (p *Peer) opLoop() {
	buf := make([]byte, 0, 64*1024)
	for op := range p.opq {
		switch op.Kind {
		case "write":
			if cap(buf) < op.N {
				buf = make([]byte, op.N)
			}
			b := buf[:op.N]
			prfFill(p.TxKey, p.Sent, b)
			n, err := p.Conn.Write(b)
			p.mu.Lock()
			p.Sent += int64(n)
			if err != nil && p.TxErr == nil {
				p.TxErr = err
			}
			p.mu.Unlock()
		case "write-close":
			// one more write and, once it has returned successfully, the close - with nothing in between
			b := make([]byte, op.N)
			prfFill(p.TxKey, p.Sent, b)
			n, err := p.Conn.Write(b)
			p.mu.Lock()
			p.Sent += int64(n)
			if err != nil && p.TxErr == nil {
				p.TxErr = err
			}
			if err == nil {
				p.Closed = true
				p.ClosedAt = p.r.SimElapsed()
				p.cond.Broadcast()
			}
			p.mu.Unlock()
			if err == nil {
				p.Conn.Close()
			}
		case "wait":
			// think time: the peer does nothing for N simulated seconds (timers and keep-alives run meanwhile)
			time.Sleep(time.Duration(op.N) * time.Second)
		case "close":
			p.mu.Lock()
			p.Closed = true
			p.ClosedAt = p.r.SimElapsed()
			p.cond.Broadcast()
			p.mu.Unlock()
			p.Conn.Close()
		}
		p.mu.Lock()
		p.busy = false
		p.mu.Unlock()
		p.r.Net.Poke() // the next scripted operation is enabled now
	}
}

// Idle reports whether the peer can take its next scripted operation.
func (p *Peer) Idle() bool {
	p.mu.Lock()
	defer p.mu.Unlock()
	return !p.busy && !p.Closed
}

// Do starts an operation on the peer's own goroutine (it may block on a full buffer).
func (p *Peer) Do(op Op) {
	switch op.Kind {
	case "pause":
		p.mu.Lock()
		p.paused = true
		p.mu.Unlock()
		return
	case "resume":
		p.mu.Lock()
		p.paused = false
		p.cond.Broadcast()
		p.mu.Unlock()
		return
	}
	p.mu.Lock()
	p.busy = true
	p.mu.Unlock()
	p.opq <- op
}

// NextEv returns the peer's next scripted operation as a driver event.
func (p *Peer) NextEv() (Ev, bool) {
	if len(p.Script) == 0 || !p.Idle() {
		return Ev{}, false
	}
	op := p.Script[0]
	return Ev{Kind: "app", Desc: fmt.Sprintf("%s %s %d", p.Name, op.Kind, op.N), key: "p" + p.Name, Do: func() {
		p.Script = p.Script[1:]
		p.r.Logf("op %s %s %d", p.Name, op.Kind, op.N)
		p.r.AddShape("o" + op.Kind[:1] + bucket(op.N))
		p.Do(op)
	}}, true
}

func (p *Peer) Snapshot() (sent, rcvd int64, eof bool, rxErr error, closed bool, paired uint64) {
	p.mu.Lock()
	defer p.mu.Unlock()
	return p.Sent, p.Rcvd, p.RxEOF, p.RxErr, p.Closed, p.PairedKey
}

func (p *Peer) Stop() {
	p.mu.Lock()
	if !p.Closed {
		p.Closed = true
		p.cond.Broadcast()
	}
	p.mu.Unlock()
	p.Conn.Close()
	defer func() { recover() }()
	close(p.opq)
}

// ---------------------------------------------------------------- targets

// Target is a recording target service bound to one address.
type Target struct {
	r       *Run
	Name    string
	Addr    string
	ln      net.Listener
	mu      sync.Mutex
	Conns   []*Peer
	Accepts int
	// Plan gives the script of the j-th accepted connection.
	Plan func(j int) []Op
	// Cands gives the candidate writers for connections to this target.
	Cands func() []Candidate
	Index int
}

func StartTarget(r *Run, index int, name, network, address string) (*Target, error) {
	ln, err := r.Net.Listen(network, address)
	if err != nil {
		return nil, err
	}
	t := &Target{r: r, Name: name, Addr: address, ln: ln, Index: index}
	go t.acceptLoop()
	r.OnCleanup(func() { ln.Close() })
	return t, nil
}

func (t *Target) acceptLoop() {
	for {
		c, err := t.ln.Accept()
		if err != nil {
			return
		}
		t.mu.Lock()
		j := t.Accepts
		t.Accepts++
		var cands []Candidate
		if t.Cands != nil {
			cands = t.Cands()
		}
		p := NewPeer(t.r, fmt.Sprintf("%s#%d", t.Name, j), "target", c, TargetKey(t.r.Seed, t.Index, j), cands)
		if t.Plan != nil {
			p.Script = t.Plan(j)
		}
		t.Conns = append(t.Conns, p)
		t.mu.Unlock()
		t.r.registerPeer(p)
		t.r.Logf("target %s accepted connection #%d", t.Name, j)
	}
}

func (t *Target) Peers() []*Peer {
	t.mu.Lock()
	defer t.mu.Unlock()
	return append([]*Peer(nil), t.Conns...)
}

// Stream keys are salted so that, within a run, no two application streams
// (and no two streams of one target) start with the same byte: a receiver can
// then tell from the very first byte whose stream it is reading.
func firstByte(key uint64) byte {
	var b [1]byte
	prfFill(key, 0, b[:])
	return b[0]
}

type ukey struct {
	seed uint64
	kind string
	a, i int
}

var ukeyCache = map[ukey]uint64{}
var ukeyMu sync.Mutex

func uniqueKey(seed uint64, kind string, a, i int) uint64 {
	ukeyMu.Lock()
	defer ukeyMu.Unlock()
	if len(ukeyCache) > 100000 {
		ukeyCache = map[ukey]uint64{}
	}
	if k, ok := ukeyCache[ukey{seed, kind, a, i}]; ok {
		return k
	}
	k := uniqueKeySlow(seed, kind, a, i)
	ukeyCache[ukey{seed, kind, a, i}] = k
	return k
}

func uniqueKeySlow(seed uint64, kind string, a, i int) uint64 {
	var prev []byte
	for x := 0; x <= i; x++ {
		for salt := 0; ; salt++ {
			k := prfKey(seed, kind, a*1000+x, salt)
			fb := firstByte(k)
			clash := false
			for _, p := range prev {
				if p == fb {
					clash = true
				}
			}
			if !clash {
				if x == i {
					return k
				}
				prev = append(prev, fb)
				break
			}
		}
	}
	panic("unreachable")
}

// TargetKey is the key the j-th connection accepted by target index writes with.
func TargetKey(seed uint64, index, j int) uint64 { return uniqueKey(seed, "tgt", index, j) }
func AppKey(seed uint64, i int) uint64           { return uniqueKey(seed, "app", 0, i) }
