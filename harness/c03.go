package verif

import (
	"fmt"
	"strings"
	"time"
)

func init() { Scenarios["C03"] = scenarioC03 }

var c03Names = []string{"a", "ab", "a/b", "A", "a ", "b", "abc", "ssh", "SSH", "é", "a.b", "a-b", "0", "", strings.Repeat("x", 120)}

// route is the reference model: exact, case-sensitive match against the
// endpoint's filtered channel list. Returns the channel index or -1.
func route(table []string, allow []string, requested string) int {
	for i, name := range table {
		if name != requested {
			continue
		}
		if len(allow) == 0 {
			return i
		}
		for _, a := range allow {
			if a == name {
				return i
			}
		}
		return -1
	}
	return -1
}

// variants derives confusable requests from a configured name.
func variants(name string) []string {
	v := []string{name + "x", name + "/", strings.ToUpper(name), strings.ToLower(name), name + " "}
	if len(name) > 1 {
		v = append(v, name[:len(name)-1])
	}
	// the listener flag syntax trims surrounding white space: a requested name cannot start with a blank
	var out []string
	for _, x := range v {
		if strings.TrimLeft(x, " ") == x {
			out = append(out, x)
		}
	}
	return out
}

func scenarioC03(r *Run) {
	c := r.Ch
	carrier := []string{"tcp", "tcp", "unix", "tcp+tls", "ws", "ws", "wss", "stdio", "udp", "dns+udp"}[c.Pick(10, "carrier")]
	cfg := WorldCfg{Carrier: carrier}
	securityFor(r, carrier, &cfg)
	// channel table
	nch := 1 + c.Pick(5, "channels")
	var table []string
	used := map[string]bool{}
	for len(table) < nch {
		n := c03Names[c.Pick(len(c03Names), "name")]
		if used[n] {
			continue
		}
		used[n] = true
		table = append(table, n)
	}
	// in one run of three the channel targets are given by host name (one host, a port per channel) instead of
	// as IP literals: what a channel name reaches is the address configured for it, port included
	thost := TargetIP
	if c.Chance(1, 3, "targets-by-host-name") {
		thost = "target.test"
		r.Count("worlds_with_targets_by_host_name")
	}
	for i, n := range table {
		cfg.Channels = append(cfg.Channels, ChanCfg{Name: n, Target: fmt.Sprintf("tcp://%s:%d", thost, 7001+i)})
	}
	// allow-list of the endpoint: none, or a non-empty subset
	var allow []string
	if c.Chance(1, 2, "allow-list") {
		for _, n := range table {
			if c.Chance(1, 2, "allowed") {
				allow = append(allow, n)
			}
		}
		if len(allow) == 0 {
			allow = []string{table[c.Pick(len(table), "allowed-one")]}
		}
	}
	cfg.ServerAllow = allow
	wsPath := ""
	if carrier == "ws" || carrier == "wss" {
		// a second path with its own allow-list; the client uses one of the two
		var allow2 []string
		for _, n := range table {
			if c.Chance(1, 2, "allowed2") {
				allow2 = append(allow2, n)
			}
		}
		if c.Chance(1, 5, "stale-allow-list") {
			// an allow-list that names only channels the table does not have (renamed, removed): whatever
			// the server makes of it - it may refuse to start - the path must not expose anything
			allow2 = []string{"gone", "renamed"}[:1+c.Pick(2, "stale-names")]
			cfg.ServerMayRefuseToStart = true
			r.Count("stale_allow_lists")
		}
		cfg.WsPaths = []WsPath{{Path: "/ws/other", Allow: allow2}}
		if c.Chance(1, 2, "use-second-path") {
			wsPath = "/ws/other"
			cfg.ClientWsPath = wsPath
			allow = allow2
		}
	}
	if carrier == "dns+udp" && c.Chance(1, 3, "second-dns-endpoint") {
		// the server has a second DNS endpoint (another port) with an allow-list of its own; the client uses
		// the first: which endpoint a request arrived on decides what it may reach
		var allowB []string
		for _, n := range table {
			if c.Chance(1, 2, "allowed-b") {
				allowB = append(allowB, n)
			}
		}
		if len(allowB) == 0 {
			allowB = []string{table[c.Pick(len(table), "allowed-b-one")]}
		}
		subA := WorldCfg{ServerAllow: allow}
		subB := WorldCfg{ServerAllow: allowB}
		entryA, urlA, _ := serverEntry(&subA, "dns+udp", CarrierPort("dns+udp"))
		entryB, _, _ := serverEntry(&subB, "dns+udp", CarrierPort("dns+udp")+100)
		if c.Chance(1, 2, "second-endpoint-listed-first") {
			cfg.ServerEntries = []string{entryB, entryA}
		} else {
			cfg.ServerEntries = []string{entryA, entryB}
		}
		cfg.Upstreams = []string{urlA}
		r.Info["second_dns_endpoint_allow"] = allowB
		r.Count("worlds_with_two_dns_endpoints")
	}
	// requests
	nreq := 1 + c.Pick(6, "requests")
	var reqs []string
	for i := 0; i < nreq; i++ {
		switch c.Pick(5, "request-kind") {
		case 0, 1:
			reqs = append(reqs, table[c.Pick(len(table), "req-configured")])
		case 2:
			vs := variants(table[c.Pick(len(table), "req-base")])
			reqs = append(reqs, vs[c.Pick(len(vs), "req-variant")])
		case 3:
			reqs = append(reqs, c03Names[c.Pick(len(c03Names), "req-any")])
		default:
			reqs = append(reqs, "nosuch")
		}
	}
	for i, q := range reqs {
		cfg.Listeners = append(cfg.Listeners, LsnCfg{Channel: q, Kind: "tcp", Addr: fmt.Sprintf("127.0.0.1:%d", 6001+i)})
	}
	r.Info["carrier"] = carrier
	r.Info["table"] = table
	r.Info["allow"] = allow
	r.Info["ws_path"] = wsPath
	r.Info["requests"] = reqs

	w, err := BuildWorld(r, cfg)
	if err != nil {
		r.Fail("world-setup", "could not build world: %v", err)
		return
	}
	if len(w.Targets) != len(table) {
		r.Fail("world-setup", "expected %d targets, got %d", len(table), len(w.Targets))
		return
	}
	conns := make([]*LConn, nreq)
	expectAccepts := make([]int, len(table))
	if w.ServerStartErr != nil {
		r.Info["server_refused_to_start"] = truncate(w.ServerStartErr.Error(), 160)
		r.Count("server_refused_stale_configuration")
	}
	for i := range conns {
		exp := route(table, allow, reqs[i])
		if w.ServerStartErr != nil {
			exp = -1 // no server: nothing is routed, nothing may reach a target
		}
		lc := &LConn{I: i, TIdx: exp, Expect: exp, Lsn: cfg.Listeners[i], Mode: "active"}
		lc.PlanA = Partition(c, 8+c.Pick(2000, "app-bytes"), "app-part")
		lc.PlanT = Partition(c, 1+c.Pick(2000, "tgt-bytes"), "tgt-part")
		conns[i] = lc
		if exp >= 0 {
			expectAccepts[exp]++
		}
	}
	cs := NewConnSet(r, w, "app", conns)
	cs.Cross = true
	pol := &NetPolicy{ChunkBias: c.Pick(2, "chunk-bias")}
	extra := func() []Ev { return append(cs.OpenEv(nil), cs.PeerEvents()...) }
	goal := func() bool {
		cs.Assign()
		if !cs.AllOpened() {
			return false
		}
		for _, lc := range conns {
			if lc.Expect >= 0 {
				if !cs.Complete(lc, false) {
					return false
				}
			} else {
				_, _, eof, rerr, _, _ := lc.App.Snapshot()
				if !eof && rerr == nil {
					return false
				}
			}
		}
		return true
	}
	// in one run of four every request is made at the same instant, with a seeded scheduling point at
	// every lock operation: which target a request reaches must not depend on what is being negotiated next to it
	// (not over DNS: there the scheduling points reproduce, within milliseconds, the multiplexer's
	// early-first-frame race that is listed as a known finding under C02 - see DESIGN.md section 8)
	if !CarrierIsDNS(carrier) && c.Chance(1, 4, "requests-together") {
		cs.Together = true
		r.YieldsOn("yield-seed")
		r.Count("requests_made_together")
	}
	// in one run of three some targets are slow to accept: the connect made for a channel is held for 1-15 s
	// (longer than any of the others takes), so connects for different channels finish in another order than
	// they were started in, or long after the next request has been made
	if c.Chance(1, 3, "slow-targets") {
		for i := range table {
			if !c.Chance(1, 2, "slow-target") {
				continue
			}
			addr := fmt.Sprintf("%s:%d", TargetIP, 7001+i)
			hold := time.Duration(1+c.Pick(15, "hold-s")) * time.Second
			r.Net.SetDialFate("tcp", addr, 2) // held
			r.Count("slow_targets")
			go func() {
				time.Sleep(hold)
				r.Net.SetDialFate("tcp", addr, 0)
			}()
		}
	}
	out := r.Drive(pol, goal, extra, 60*time.Second, 20*time.Minute)
	r.YieldsOff()
	if out == Aborted {
		return
	}
	cs.Assign()
	// --- oracle
	for i, lc := range conns {
		if !lc.Opened {
			continue
		}
		_, ar, aeof, aerr, _, apk := lc.App.Snapshot()
		if lc.Expect < 0 {
			if lc.Tp != nil {
				r.FailSig("exposed", fmt.Sprintf("carrier=%s", carrierClass(carrier)), "request %d for channel %q must be refused (table %q, allow-list %q) but was connected to target %s", i, reqs[i], table, allow, w.Targets[lc.TpTarget].Name)
				return
			}
			if ar > 0 {
				src := r.peerByKey(apk)
				r.FailSig("exposed", fmt.Sprintf("carrier=%s", carrierClass(carrier)), "request %d for channel %q must be refused but its application received %d bytes from %s", i, reqs[i], ar, src.nameOr())
				return
			}
			if !aeof && aerr == nil {
				r.FailSig("refusal-not-signalled", fmt.Sprintf("carrier=%s", carrierClass(carrier)), "%s: request %d for channel %q (not routable) was neither connected nor closed: the application hangs", out, i, reqs[i])
				return
			}
			r.Count("refusals_observed")
			continue
		}
		if lc.Tp == nil {
			r.FailSig("not-routed", fmt.Sprintf("carrier=%s", carrierClass(carrier)), "%s: request %d for channel %q (configured%s) reached no target: %v", out, i, reqs[i], allowNote(allow), cs.Describe())
			return
		}
		if lc.TpTarget != lc.Expect {
			r.FailSig("misrouted", fmt.Sprintf("carrier=%s", carrierClass(carrier)), "request %d for channel %q was connected to target %s (channel %q) instead of %s", i, reqs[i], w.Targets[lc.TpTarget].Name, table[lc.TpTarget], w.Targets[lc.Expect].Name)
			return
		}
		if !cs.Complete(lc, false) {
			r.FailSig("not-routed", fmt.Sprintf("carrier=%s", carrierClass(carrier)), "%s: request %d for channel %q was routed but its data did not arrive: %v", out, i, reqs[i], cs.Describe())
			return
		}
		r.Count("routed_ok")
	}
	// no outbound connection beyond the predicted multiset
	for ti, t := range w.Targets {
		got := len(t.Peers())
		if got != expectAccepts[ti] {
			r.FailSig("extra-outbound", fmt.Sprintf("carrier=%s", carrierClass(carrier)), "target %s (channel %q) accepted %d connections, the routing model predicts %d (requests %q, allow-list %q)", t.Name, table[ti], got, expectAccepts[ti], reqs, allow)
			return
		}
	}
	cs.CheckPairing("misrouted")
	r.NonTriv = true
}

func allowNote(allow []string) string {
	if len(allow) == 0 {
		return ", no allow-list"
	}
	return fmt.Sprintf(" and in allow-list %q", allow)
}
