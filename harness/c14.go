package verif

import (
	"fmt"
	"github.com/bokysan/socketace/v2/internal/simrt"
	"net"
	"sort"
	"strings"
	"time"

	"github.com/bokysan/socketace/v2/internal/server"
	"github.com/bokysan/socketace/v2/internal/socketace"
	sdns "github.com/bokysan/socketace/v2/internal/streams/dns"
	"github.com/bokysan/socketace/v2/internal/util/cert"
	kcp "github.com/xtaci/kcp-go/v5"
	"github.com/xtaci/smux"
)

func init() { Scenarios["C14"] = scenarioC14 }

type ledger struct {
	Kcp     int // KCP sessions the library counts as established (a session nobody closed holds no goroutine or socket)
	G       map[string]int
	Conns   int
	Lsn     int
	Socks   int
	Streams int // multiplexer streams in the stream tables of live sessions
}

func takeLedger(r *Run) ledger {
	c, l, s := r.Net.OpenEndpoints()
	return ledger{G: GoroutineLedger(), Conns: c, Lsn: l, Socks: s, Streams: smux.SimOpenStreams(), Kcp: int(kcp.DefaultSnmp.Copy().CurrEstab)}
}

// diff lists what b holds in excess of a (shrinking is never a leak).
func (a ledger) diff(b ledger) string {
	var out []string
	keys := map[string]bool{}
	for k := range a.G {
		keys[k] = true
	}
	for k := range b.G {
		keys[k] = true
	}
	var ks []string
	for k := range keys {
		ks = append(ks, k)
	}
	sort.Strings(ks)
	for _, k := range ks {
		if b.G[k] > a.G[k] {
			out = append(out, fmt.Sprintf("goroutines created by %s: %d -> %d", k, a.G[k], b.G[k]))
		}
	}
	if b.Conns > a.Conns {
		out = append(out, fmt.Sprintf("open stream sockets: %d -> %d", a.Conns, b.Conns))
	}
	if b.Lsn > a.Lsn {
		out = append(out, fmt.Sprintf("open listeners: %d -> %d", a.Lsn, b.Lsn))
	}
	if b.Socks > a.Socks {
		out = append(out, fmt.Sprintf("open datagram sockets: %d -> %d", a.Socks, b.Socks))
	}
	if b.Kcp > a.Kcp {
		out = append(out, fmt.Sprintf("KCP sessions never closed: %d -> %d", a.Kcp, b.Kcp))
	}
	if b.Streams > a.Streams {
		out = append(out, fmt.Sprintf("multiplexer streams still in the stream table of a live session: %d -> %d", a.Streams, b.Streams))
	}
	return strings.Join(out, "; ")
}

// leakSites names the creation sites that grew, for the diagnosis signature.
func leakSites(a, b ledger) string {
	var out []string
	for k, v := range b.G {
		if v > a.G[k] {
			s := k
			if i := strings.LastIndex(s, "/"); i >= 0 {
				s = s[i+1:]
			}
			out = append(out, s)
		}
	}
	sort.Strings(out)
	if b.Conns > a.Conns {
		out = append(out, "sockets")
	}
	if b.Streams > a.Streams {
		out = append(out, "streams")
	}
	if b.Kcp > a.Kcp {
		out = append(out, "kcp-sessions")
	}
	return strings.Join(out, ",")
}

func scenarioC14(r *Run) {
	c := r.Ch
	carrier := pickCarrierLight(r)
	cfg := WorldCfg{Carrier: carrier}
	securityFor(r, carrier, &cfg)
	cfg.Channels = []ChanCfg{{Name: "alpha", Target: "tcp://" + TargetIP + ":7001"}}
	cfg.Listeners = []LsnCfg{{Channel: "alpha", Kind: "tcp", Addr: "127.0.0.1:6001"},
		// a listener for a channel the server does not offer: logical connections that are refused
		// (they end before any data is piped) must be reclaimed like the others
		{Channel: "ghost", Kind: "tcp", Addr: "127.0.0.1:6003"}}
	n := c.OneOf("N", 3, 5, 8)
	if r.Tier == "thorough" {
		n = c.OneOf("N", 5, 10, 20, 40)
	}
	if CarrierIsDNS(carrier) && n > 5 {
		n = 5
	}
	overlap := 1 + c.Pick(3, "overlap")
	if !CarrierIsDNS(carrier) && !CarrierIsKCP(carrier) && c.Chance(1, 6, "crowd") {
		// a crowd: dozens of logical connections open at the same time (pools, free lists and tables that
		// a handful of connections never fills)
		n = 20 + c.Pick(24, "crowd-size")
		overlap = n
		r.Count("runs_with_a_crowd_of_connections")
	}
	endMode := []string{"client-shutdown", "carrier-reset", "garbage-frame", "partition-keepalive", "none", "carrier-timeout", "server-closes"}[c.Pick(7, "end-mode")]
	if endMode == "garbage-frame" && (CarrierEncrypted(carrier) || cfg.ServerCert != "" || CarrierIsKCP(carrier) || CarrierIsDNS(carrier) || strings.HasPrefix(carrier, "ws")) {
		// garbage can only be injected as stream bytes where the carrier is a cleartext byte stream
		endMode = "carrier-reset"
	}
	if endMode == "carrier-timeout" && (strings.HasPrefix(carrier, "stdio") || strings.HasPrefix(carrier, "unix")) {
		endMode = "carrier-reset" // only a network path makes the kernel give up with ETIMEDOUT
	}
	if endMode == "server-closes" && (CarrierIsKCP(carrier) || strings.HasPrefix(carrier, "stdio")) {
		// KCP has no close signal (the peer learns by keep-alive timeout); the stdio carrier has no server-side socket
		endMode = "partition-keepalive"
	}
	if (endMode == "carrier-reset" || endMode == "partition-keepalive" || endMode == "carrier-timeout") && (CarrierIsKCP(carrier) || CarrierIsDNS(carrier)) {
		endMode = "partition-keepalive"
	}
	r.Net.DefaultCap = c.OneOf("sockbuf", 65536, 0, 4096)
	r.Info["carrier"] = carrier
	r.Info["N"] = n
	r.Info["overlap"] = overlap
	r.Info["end_mode"] = endMode

	w, err := BuildWorld(r, cfg)
	if err != nil {
		r.Fail("world-setup", "could not build world: %v", err)
		return
	}
	r.RunFor(5 * time.Second)
	base := takeLedger(r)

	pol := &NetPolicy{ChunkBias: c.Pick(2, "chunk-bias")}
	// in one run of four (not over DNS) every lock operation is a seeded scheduling point while the connections of a batch run
	yieldy := !CarrierIsDNS(carrier) && c.Chance(1, 4, "scheduling-points")
	if yieldy {
		r.Count("runs_with_scheduling_points")
	}
	total := 0
	together := false // the next batch opens all its connections at the same instant, scheduling points on
	// judgeIncomplete: a history whose connections did not all finish says nothing about the footprint after n
	// versus 2n connections, but it still has to be reclaimed: every application and target hangs up, the client
	// shuts its session down, and five minutes later nothing of it may remain.
	judgeIncomplete := func(cs *ConnSet, conns []*LConn) {
		if smux.SimEarlyFirstFrames > 0 {
			// the multiplexer's early-first-frame race (known finding under C02) leaves a stream waiting for ever
			r.Count("history_incomplete_known_smux_race")
			return
		}
		for _, lc := range conns {
			if lc.App != nil {
				lc.App.Do(Op{Kind: "close"})
			}
			if lc.Tp != nil {
				lc.Tp.Do(Op{Kind: "close"})
			}
		}
		for _, t := range w.Targets {
			for _, p := range t.Peers() {
				p.Do(Op{Kind: "close"})
			}
		}
		w.Client.Upstream.Shutdown()
		r.RunFor(5 * time.Minute)
		l := takeLedger(r)
		if d := base.diff(l); d != "" {
			r.Info["leaked_goroutine_stacks"] = GoroutineStacks(strings.Split(leakSites(base, l), ","))
			r.FailSig("not-reclaimed", "carrier="+carrierClass(carrier)+" end=history-incomplete sites="+leakSites(base, l), "a batch of connections did not finish (%v); five minutes after every application and target had hung up and the client had shut its session down the footprint did not return to idle: %s", cs.Describe(), d)
		}
	}
	batch := func(count int) bool {
		conns := make([]*LConn, count)
		for i := range conns {
			lc := &LConn{I: total + i, TIdx: 0, Lsn: cfg.Listeners[0], Mode: "active"}
			lc.PlanA = Partition(c, 1+c.Pick(3000, "app-bytes"), "app-part")
			lc.PlanT = Partition(c, c.Pick(3000, "tgt-bytes"), "tgt-part")
			if c.Chance(1, 2, "closer") {
				lc.PlanA = append(lc.PlanA, Op{Kind: "close"})
			} else {
				lc.PlanT = append(lc.PlanT, Op{Kind: "close"})
			}
			conns[i] = lc
		}
		total += count
		cs := NewConnSet(r, w, "app", conns)
		cs.KeySpan = 2*n + 8
		// keep at most `overlap` connections open at a time
		finished := func(lc *LConn) bool {
			if !lc.Opened || lc.Tp == nil {
				return false
			}
			_, _, _, _, ac, _ := lc.App.Snapshot()
			_, _, _, _, tc, _ := lc.Tp.Snapshot()
			return ac && tc
		}
		extra := func() []Ev {
			open := 0
			for _, lc := range conns {
				if lc.Opened && !finished(lc) {
					open++
				}
			}
			var evs []Ev
			if open < overlap || together {
				evs = cs.OpenEv(nil)
			}
			// a side closes only after it has received everything: this check is about reclamation, not data loss
			cs.Assign()
			for _, lc := range conns {
				if lc.App != nil {
					lc.App.CloseOnEnd = true
					hold := len(lc.App.Script) > 0 && lc.App.Script[0].Kind == "close" && !cs.Complete(lc, false)
					if e, ok := lc.App.NextEv(); ok && !hold {
						evs = append(evs, e)
					}
				}
				if lc.Tp != nil {
					lc.Tp.CloseOnEnd = true
					hold := len(lc.Tp.Script) > 0 && lc.Tp.Script[0].Kind == "close" && !cs.Complete(lc, false)
					if e, ok := lc.Tp.NextEv(); ok && !hold {
						evs = append(evs, e)
					}
				}
			}
			return evs
		}
		goal := func() bool {
			for _, lc := range conns {
				if !finished(lc) {
					return false
				}
			}
			return true
		}
		if together {
			cs.Together = true
		}
		if yieldy || together {
			r.YieldsOn("yield-seed")
		}
		out := r.Drive(pol, goal, extra, 2*time.Minute, 60*time.Minute)
		r.YieldsOff()
		if out == Aborted {
			return false
		}
		if out != GoalMet {
			// connections that do not finish are C01/C17's subject; here the history is unusable for the
			// growth comparison, but whatever it left behind must still be reclaimed
			r.Count("history_incomplete")
			r.Info["incomplete"] = cs.Describe()
			judgeIncomplete(cs, conns)
			return false
		}
		// silent peers: somebody connects to the server endpoint at carrier level, says nothing for longer
		// than any handshake allowance, and goes away. Nothing of it may remain on the server.
		if !strings.HasPrefix(carrier, "stdio") && !CarrierIsDNS(carrier) {
			for k := c.Pick(3, "silent-peers"); k > 0; k-- {
				port := CarrierPort(carrier)
				r.Net.SourceIP = fmt.Sprintf("10.0.1.%d", 100+k)
				var sc net.Conn
				var pc net.PacketConn
				var err error
				switch {
				case CarrierIsKCP(carrier):
					pc, err = r.Net.ListenPacket("udp", "")
					if err == nil {
						sc, err = kcp.NewConn2(&net.UDPAddr{IP: net.ParseIP(ServerIP), Port: port}, nil, 10, 3, pc)
						if err == nil {
							// KCP has no connection set-up: the server only learns of the peer from a first segment
							go sc.Write([]byte{0})
						}
					}
				case strings.HasPrefix(carrier, "unix"):
					sc, err = r.Net.Dial("unix", fmt.Sprintf("sa-%d.sock", port), 0)
				default:
					sc, err = r.Net.Dial("tcp", fmt.Sprintf("%s:%d", ServerIP, port), 0)
				}
				r.Net.SourceIP = ClientIP
				if err != nil {
					r.Fail("harness", "silent peer could not connect: %v", err)
					return false
				}
				// On the plain stream carriers the peer may also get as far as the announcement (request sent,
				// answer received) before it falls silent - and it may be lost without a trace rather than hang
				// up: whatever step of the session set-up it is in, the server must give it up and reclaim it.
				if carrier == "tcp" || carrier == "unix" {
					switch c.Pick(3, "silent-peer-variant") {
					case 1, 2:
						sc.Write([]byte("X-SOCKETACE / HTTP/1.1\r\nAccepts-Protocol-Version: v2.0.0\r\nUser-Agent: socketace/silent\r\n\r\n"))
						answered := false
						go func() {
							readBlock(sc)
							answered = true
						}()
						r.RunFor(2 * time.Second)
						if answered {
							r.Count("silent_peers_after_the_announcement")
						}
						if c.Chance(1, 2, "silent-peer-lost-without-a-trace") {
							if cn, ok := sc.(*simrt.Conn); ok {
								r.Net.Blackhole(cn, true)
								r.Count("silent_peers_lost_without_a_trace")
							}
						}
					}
				}
				r.RunFor(time.Duration(35+c.Pick(30, "silent-s")) * time.Second)
				sc.Close()
				if pc != nil {
					pc.Close() // the session does not own the socket it was given
				}
				r.Count("silent_peers")
			}
		}
		// silent logical connections: a peer completes the session set-up, opens 1-3 logical connections and never
		// says which channel it wants - for longer than any allowance - then ends its session. Nothing of them
		// may remain on the server (plain stream carriers, where the harness can speak the protocol itself).
		if carrier == "tcp" || carrier == "unix" {
			if k := c.Pick(3, "silent-logical-connections"); k > 0 {
				port := CarrierPort(carrier)
				r.Net.SourceIP = "10.0.1.90"
				var sc net.Conn
				var err error
				if carrier == "unix" {
					sc, err = r.Net.Dial("unix", fmt.Sprintf("sa-%d.sock", port), 0)
				} else {
					sc, err = r.Net.Dial("tcp", fmt.Sprintf("%s:%d", ServerIP, port), 0)
				}
				r.Net.SourceIP = ClientIP
				if err != nil {
					r.Fail("harness", "peer with silent logical connections could not connect: %v", err)
					return false
				}
				hold := time.Duration(35+c.Pick(40, "silent-logical-s")) * time.Second
				over, opened := false, 0
				go func() {
					defer func() { over = true }()
					cc, err := socketace.NewClientConnection(sc, &cert.ClientConfig{InsecureSkipVerify: true}, false, "server.test:1")
					if err != nil {
						return
					}
					sess, err := smux.Client(cc, smux.DefaultConfig())
					if err != nil {
						return
					}
					for i := 0; i < k; i++ {
						if _, err := sess.OpenStream(); err == nil {
							opened++
						}
					}
					time.Sleep(hold)
					sess.Close()
				}()
				for i := 0; i < 200 && !over; i++ {
					r.RunFor(time.Second)
				}
				sc.Close()
				r.CountN("silent_logical_connections", opened)
			}
		}
		// refused connections: the application connects to the listener of a channel the server does not
		// offer, writes a little, and hangs up 30 s later whatever the client did with it
		for k := c.Pick(4, "refused-connections"); k > 0; k-- {
			conn, err := w.DialApp(cfg.Listeners[1])
			if err != nil {
				r.Fail("connect", "application could not connect to the ghost listener: %v", err)
				return false
			}
			go func() {
				conn.Write([]byte("hello, anybody there?"))
				buf := make([]byte, 64)
				for {
					if _, err := conn.Read(buf); err != nil {
						return
					}
				}
			}()
			r.RunFor(30 * time.Second)
			conn.Close()
			r.Count("refused_connections")
		}
		return true
	}

	if !batch(n) {
		return
	}
	r.RunFor(150 * time.Second)
	l1 := takeLedger(r)
	// In one run of three (stream carriers) the session is lost between the two batches, unnoticed by anybody,
	// and the second batch opens its connections at the same instant with scheduling points on: they all find
	// the dead session. The footprint after 2n connections must still be the one after n.
	if !strings.HasPrefix(carrier, "stdio") && !CarrierIsKCP(carrier) && !CarrierIsDNS(carrier) && c.Chance(1, 3, "session-lost-mid-history") {
		for _, cn := range ClientCarrierConns(w) {
			if c.Chance(1, 2, "mid-loss-timeout") && !strings.HasPrefix(carrier, "unix") {
				r.Net.TimeoutKill(cn)
				r.Count("fault_carrier_timeout")
			} else {
				r.Net.Reset(cn)
				r.Count("fault_carrier_reset")
			}
		}
		r.Count("session_lost_mid_history")
		r.RunFor(time.Duration(1+c.Pick(10, "mid-loss-wait-s")) * time.Second)
		together = true
	}
	if !batch(n) {
		return
	}
	together = false
	r.RunFor(150 * time.Second)
	l2 := takeLedger(r)
	r.NonTriv = true
	r.CountN("logical_connections", 2*n)
	if d := l1.diff(l2); d != "" {
		r.FailSig("growth", "carrier="+carrierClass(carrier)+" sites="+leakSites(l1, l2), "footprint after %d connections differs from the footprint after %d: %s", 2*n, n, d)
		return
	}
	if len(r.Spins) > 0 {
		r.FailSig("busy-loop", "site="+spinSite(r.Spins[0]), "a goroutine spun without blocking: %s", r.Spins[0])
		return
	}

	// Some logical connections are open and quiet when the session ends (one run in two): they must be
	// ended on both sides - the application and the target each see their connection go - and reclaimed.
	type openConn struct {
		conn net.Conn
		done bool // the application's read returned (end-of-stream or error)
	}
	var stillOpen []*openConn
	if endMode != "none" && !strings.HasPrefix(carrier, "stdio") {
		for k := c.Pick(4, "open-at-session-end"); k > 0; k-- {
			conn, err := w.DialApp(cfg.Listeners[0])
			if err != nil {
				r.Fail("connect", "application could not connect: %v", err)
				return
			}
			oc := &openConn{conn: conn}
			stillOpen = append(stillOpen, oc)
			go func() {
				buf := make([]byte, 256) // (it writes nothing: the target verifies every byte it receives)
				for {
					if _, err := conn.Read(buf); err != nil {
						oc.done = true
						return
					}
				}
			}()
		}
		if len(stillOpen) > 0 {
			r.RunFor(20 * time.Second)
			r.CountN("connections_open_at_session_end", len(stillOpen))
			// the target service hangs up when it is hung up on
			for _, t := range w.Targets {
				for _, p := range t.Peers() {
					p.CloseOnEnd = true
				}
			}
		}
	}

	// end the physical session
	switch endMode {
	case "client-shutdown":
		w.Client.Upstream.Shutdown()
		r.Count("end_client_shutdown")
	case "carrier-reset":
		for _, cn := range ClientCarrierConns(w) {
			r.Net.Reset(cn)
			r.Count("fault_carrier_reset")
		}
	case "server-closes":
		// the server's end of the physical session is closed under a live client (what the server does
		// when it ends a session for its own reasons): stream carriers send a FIN, the DNS tunnel answers
		// the client's next request with "bad connection"
		if CarrierIsDNS(carrier) {
			for _, sv := range w.Server.Servers {
				if ds, ok := sv.(*server.DnsServer); ok {
					if l, ok := ds.SimListener().(*sdns.ServerDnsListener); ok {
						for _, cn := range l.SimLiveConns() {
							cn.Close()
							r.Count("end_server_closes")
						}
					}
				}
			}
		} else {
			for _, cn := range ClientCarrierConns(w) {
				cn.Out().To.Close()
				r.Count("end_server_closes")
			}
		}
	case "carrier-timeout":
		for _, cn := range ClientCarrierConns(w) {
			r.Net.TimeoutKill(cn)
			r.Count("fault_carrier_timeout")
		}
	case "garbage-frame":
		for _, ls := range r.Net.LinkStates() {
			if isClientCarrierLink(w, ls) {
				g := make([]byte, 64)
				prfFill(r.Seed^0xbad, 0, g)
				g[0] = 0x7f // not a multiplexer version
				r.Net.InjectBytes(r.Net.Link(ls.ID), g)
				r.Count("fault_garbage_frame")
			}
		}
	case "partition-keepalive":
		for _, cn := range ClientCarrierConns(w) {
			r.Net.Blackhole(cn, true)
			r.Count("fault_partition")
		}
		// the partition may catch the session in the middle of a transfer: the targets of the connections
		// that are still open start sending (1 MiB each, more than any socket buffer), so that a tunnel
		// write is blocked on the dead carrier when the keep-alive gives up and the session is closed
		if len(stillOpen) > 0 && c.Chance(1, 2, "transfer-into-the-partition") {
			n := 0
			for _, t := range w.Targets {
				for _, p := range t.Peers() {
					if _, _, _, _, closed, _ := p.Snapshot(); !closed {
						conn := p.Conn
						go conn.Write(make([]byte, 1<<20))
						n++
					}
				}
			}
			if n > 0 {
				r.Count("partitions_with_a_write_in_flight")
			}
		}
		if CarrierIsKCP(carrier) || CarrierIsDNS(carrier) {
			r.Info["partition"] = "datagram carrier: all datagrams dropped"
			// Drop every datagram for a drawn time. Two minutes is long enough for both ends' keep-alive
			// to give up. A shorter outage, close to the keep-alive timeout, may end the session at one
			// end only (or not at all) before the path heals; whatever survives it is then ended by a
			// second, long outage, so that the idle footprint is the expected one in every case.
			plen := []time.Duration{2 * time.Minute, time.Duration(20+c.Pick(40, "partition-s")) * time.Second, time.Duration(28000+c.Pick(6000, "partition-ms")) * time.Millisecond}[c.Pick(3, "partition-len")]
			r.Info["partition_len"] = plen.String()
			outage := func(d time.Duration) {
				end := time.Now().Add(d)
				for time.Now().Before(end) {
					r.Step(&NetPolicy{Whole: true, FilterLink: func(ls2 simLinkState) bool { return true }, DgramHook: func(seq int) bool {
						r.Net.DropDgram(seq)
						r.Count("fault_dgram_loss")
						return true
					}}, nil, 5*time.Second)
				}
			}
			if c.Chance(1, 4, "partition-never-heals") {
				// the other end is gone for good: every datagram is lost from now until the end of the run. Each
				// end has to give the session up on its own and reclaim it without ever hearing from the peer again
				// (not even an answer to its good-bye).
				r.Info["partition_len"] = "for ever"
				r.Count("fault_partition_for_ever")
				r.DgramFilter = func(seq int) bool {
					r.Net.DropDgram(seq)
					return true
				}
				plen = 2 * time.Minute
			}
			outage(plen)
			if plen < 2*time.Minute {
				r.Count("fault_partition_healed")
				r.RunFor(time.Duration(30+c.Pick(90, "healed-s")) * time.Second)
				outage(2 * time.Minute)
			}
		}
	case "none":
	}
	if endMode != "none" {
		r.RunFor(5 * time.Minute)
		for i, oc := range stillOpen {
			if !oc.done {
				r.FailSig("not-reclaimed", "carrier="+carrierClass(carrier)+" end="+endMode+" sites=application-connection-not-ended", "five minutes after the session ended by %s, the application of open logical connection %d of %d has not been told (no end-of-stream, no error)", endMode, i, len(stillOpen))
				return
			}
			oc.conn.Close()
		}
		if len(stillOpen) > 0 {
			r.RunFor(30 * time.Second)
		}
		l3 := takeLedger(r)
		if len(r.Spins) > 0 {
			r.FailSig("busy-loop", "site="+spinSite(r.Spins[0])+" end="+endMode, "after the session ended by %s a goroutine spun without blocking: %s", endMode, r.Spins[0])
			return
		}
		if d := base.diff(l3); d != "" {
			r.Info["leaked_goroutine_stacks"] = GoroutineStacks(strings.Split(leakSites(base, l3), ","))
			r.FailSig("not-reclaimed", "carrier="+carrierClass(carrier)+" end="+endMode+" sites="+leakSites(base, l3), "after the session ended by %s the footprint did not return to idle: %s", endMode, d)
			return
		}
		r.Count("session_end_checked")
	}
}

func spinSite(s string) string {
	if i := strings.LastIndex(s, " at "); i >= 0 {
		return s[i+4:]
	}
	return "?"
}

func indexOfLink(r *Run, id int) int {
	for i, ls := range r.Net.LinkStates() {
		if ls.ID == id {
			return i
		}
	}
	return 0
}
