package verif

import (
	"fmt"
	"time"
)

func init() { Scenarios["C17"] = scenarioC17 }

func scenarioC17(r *Run) {
	c := r.Ch
	carrier := pickCarrier(r)
	cfg := WorldCfg{Carrier: carrier}
	securityFor(r, carrier, &cfg)
	cfg.Channels = []ChanCfg{{Name: "alpha", Target: "tcp://" + TargetIP + ":7001"}}
	cfg.Listeners = []LsnCfg{{Channel: "alpha", Kind: "tcp", Addr: "127.0.0.1:6001"},
		// a listener for a channel the server does not offer: a neighbour that is refused
		{Channel: "ghost", Kind: "tcp", Addr: "127.0.0.1:6003"}}
	// One run in six: the listener has a forward address at which the target is reachable, so the client connects
	// the application to it directly (no session, no server). Close and end-of-stream are owed on that path too.
	direct := c.Chance(1, 6, "direct-forward")
	if direct {
		cfg.Listeners[0].Forward = "tcp://" + TargetIP + ":7001"
		r.Count("runs_over_the_forward_address")
	}
	r.Info["direct_forward"] = direct
	maxPayload := payloadCap(r, carrier)
	r.Net.DefaultCap = c.OneOf("sockbuf", 65536, 0, 4096, 262144)
	pol := &NetPolicy{ChunkBias: c.Pick(3, "chunk-bias")}

	closer := []string{"app", "target"}[c.Pick(2, "closer")]
	payload := 0
	if !c.Chance(1, 8, "empty-payload") {
		payload = PickSize(c, maxPayload, "payload")
	}
	otherBytes := 0
	if c.Chance(1, 2, "other-writes") {
		otherBytes = PickSize(c, 8192, "other-bytes")
	}
	// The closer identifies the connection with its first byte (it may close before
	// reading anything). A closer that writes nothing is identified by the other
	// side's first byte and closes as soon as the pair is known.
	first := closer
	if payload == 0 {
		if closer == "app" {
			first = "target"
		} else {
			first = "app"
		}
		if otherBytes == 0 {
			otherBytes = 1
		}
	}
	nbg := c.Pick(3, "background-connections")
	crowd := false
	if !CarrierIsDNS(carrier) && !CarrierIsKCP(carrier) && c.Chance(1, 8, "crowd") {
		// a crowd of neighbours on the same session, most of which finish while the test connection runs
		nbg = 17 + c.Pick(24, "crowd-size")
		crowd = true
		r.Count("runs_with_a_crowd_of_neighbours")
	}

	w, err := BuildWorld(r, cfg)
	if err != nil {
		r.Fail("world-setup", "could not build world: %v", err)
		return
	}
	conns := make([]*LConn, 1+nbg)
	thinks := 0
	bgCloses := 0
	heavy := 0
	refusedBg := 0
	for i := range conns {
		lc := &LConn{I: i, TIdx: 0, Lsn: cfg.Listeners[0], Mode: "active"}
		if i == 0 {
			cp := Partition(c, payload, "closer-part")
			// think time (sampled): the closer pauses 1 s .. 2 min before, in the middle of, or after its
			// writes, so that the connection is not brand new when its last data and the close happen
			if c.Chance(1, 3, "think-time") {
				w := Op{Kind: "wait", N: c.OneOf("think-s", 1, 10, 31, 45, 120)}
				at := c.Pick(len(cp)+1, "think-at")
				cp = append(append(append([]Op{}, cp[:at]...), w), cp[at:]...)
				thinks = w.N
			}
			cp = append(cp, Op{Kind: "close"})
			op := Partition(c, otherBytes, "other-part")
			if closer == "app" {
				lc.PlanA, lc.PlanT = cp, op
			} else {
				lc.PlanA, lc.PlanT = op, cp
			}
		} else {
			na, nt := 1+c.Pick(2000, "bg-app"), 1+c.Pick(2000, "bg-tgt")
			lc.PlanA, lc.PlanT = Partition(c, na, "bg-part"), Partition(c, nt, "bg-part")
			if !direct && c.Chance(1, 5, "bg-refused-channel") {
				// a neighbour asks for a channel the server refuses, at a moment the driver chooses: it is turned
				// away, and that is all that happens
				lc.Lsn = cfg.Listeners[1]
				lc.Mode = "refused"
				refusedBg++
			} else if !crowd && !CarrierIsKCP(carrier) && !CarrierIsDNS(carrier) && heavy < 2 && c.Chance(1, 4, "bg-heavy-paused-reader") {
				// a neighbour whose application does not read while its target sends 0.3-1.3 MiB (within the
				// multiplexer's receive budget of 4 MiB): the test connection's data and end-of-stream are owed
				// all the same
				nt = 300*1024 + c.Pick(1024*1024, "bg-heavy-bytes")
				lc.PlanT = Partition(c, nt, "bg-part")
				lc.Mode = "paused-app"
				heavy++
			} else if !crowd && c.Chance(1, 2, "bg-idle") {
				lc.Mode = "idle"
			} else if crowd || c.Chance(1, 2, "bg-closes") {
				// a neighbour on the same listener finishes in an orderly way at a moment the driver chooses,
				// possibly in the middle of the test connection's transfer
				if c.Chance(1, 2, "bg-closer") {
					lc.PlanA = append(lc.PlanA, Op{Kind: "close"})
				} else {
					lc.PlanT = append(lc.PlanT, Op{Kind: "close"})
				}
				bgCloses++
			}
		}
		conns[i] = lc
	}
	cs := NewConnSet(r, w, first, conns)
	// the test connection is opened before, between or after its neighbours
	cs.Order = make([]int, 0, len(conns))
	at := c.Pick(len(conns), "test-connection-opened-nth")
	for i := 1; i < len(conns); i++ {
		if len(cs.Order) == at {
			cs.Order = append(cs.Order, 0)
		}
		cs.Order = append(cs.Order, i)
	}
	if len(cs.Order) < len(conns) {
		cs.Order = append(cs.Order, 0)
	}
	r.Info["open_order"] = fmt.Sprint(cs.Order)
	r.Info["background_closing"] = bgCloses
	r.Info["background_refused"] = refusedBg
	if refusedBg > 0 {
		r.Count("runs_with_a_refused_neighbour")
	}
	r.Info["background_heavy_paused_readers"] = heavy
	if heavy > 0 {
		r.Count("runs_with_a_heavy_paused_neighbour")
	}
	if bgCloses > 0 {
		r.Count("runs_with_closing_neighbour")
	}
	r.Info["carrier"] = carrier
	r.Info["closer"] = closer
	r.Info["payload"] = payload
	r.Info["other_side_writes"] = otherBytes
	r.Info["first_writer"] = first
	r.Info["background"] = nbg
	r.Info["closer_think_time_s"] = thinks
	if thinks > 0 {
		r.Count("runs_with_think_time")
	}
	r.Info["sockbuf"] = r.Net.DefaultCap

	// background connections come up first (or not at all)
	test := conns[0]
	extra := func() []Ev {
		evs := append(cs.OpenEv(nil), cs.PeerEvents()...)
		if payload == 0 && (test.Tp == nil || test.App == nil) {
			// hold the bare close until the harness knows which target socket belongs to the connection
			var keep []Ev
			for _, e := range evs {
				if e.Kind == "app" && hasSuffix(e.Desc, " close 0") && (hasPrefix(e.Desc, "app0 ")) {
					continue
				}
				keep = append(keep, e)
			}
			evs = keep
		}
		return evs
	}
	var X, Y *Peer
	wantX := int64(payload)
	goal := func() bool {
		cs.Assign()
		if test.Tp == nil || test.App == nil {
			return false
		}
		if closer == "app" {
			X, Y = test.App, test.Tp
		} else {
			X, Y = test.Tp, test.App
		}
		_, _, _, _, xclosed, _ := X.Snapshot()
		_, yr, yeof, yerr, _, _ := Y.Snapshot()
		if !xclosed {
			return false
		}
		return (yeof || yerr != nil) && yr >= 0
	}
	bound := 10 * time.Minute
	if CarrierIsDNS(carrier) {
		bound = 30 * time.Minute
	}
	idle := 90 * time.Second
	if direct {
		// no session, no keep-alive: while a closer thinks (up to 120 s) nothing at all happens
		idle = 150 * time.Second
	}
	out := r.Drive(pol, goal, extra, idle, bound)
	if out == Aborted {
		return
	}
	// Diagnosis: was the other side still writing towards the closer when the close
	// took effect (its writes then run into a closed socket and fail)?
	// (Either it had not finished writing, or bytes it had written were still on their way
	// when the closer closed: the closer never read everything the other side sent.)
	otherWriting := false
	if Y != nil && X != nil {
		ys, _, _, _, _, _ := Y.Snapshot()
		_, xr, _, _, _, _ := X.Snapshot()
		Y.mu.Lock()
		otherWriting = Y.TxErr != nil || ys < int64(otherBytes) || len(Y.Script) > 0 || xr < ys
		Y.mu.Unlock()
	}
	cclass := carrierClass(carrier)
	if direct {
		cclass = "direct"
	}
	sigBase := fmt.Sprintf("carrier=%s closer=%s data_towards_closer_outstanding=%v", cclass, closer, otherWriting)
	if test.Tp == nil || test.App == nil || X == nil {
		r.FailSig("no-connection", sigBase, "%s: the test connection was never established end to end: %v", out, cs.Describe())
		return
	}
	xs, _, _, _, xclosed, _ := X.Snapshot()
	_, yr, yeof, yerr, _, _ := Y.Snapshot()
	if !xclosed {
		r.FailSig("close-not-reached", sigBase, "%s: the closing side could not finish its writes (sent %d of %d): %v", out, xs, wantX, cs.Describe())
		return
	}
	r.NonTriv = true
	r.Count("closes_observed")
	switch {
	case yeof && yr == wantX:
		r.Count("clean_eof")
	case yeof && yr < wantX:
		r.FailSig("truncated", sigBase, "%s closed after writing %d bytes; the other end saw end-of-stream after only %d (the tail was lost)", closer, wantX, yr)
	case yerr != nil && yr < wantX:
		r.FailSig("truncated", sigBase+" err", "%s closed after writing %d bytes; the other end got %v after only %d", closer, wantX, yerr, yr)
	case yerr != nil:
		// all data, then a reset instead of an orderly end-of-stream
		r.FailSig("reset-instead-of-eof", sigBase, "%s closed after writing %d bytes; the other end received them all but then saw %v instead of end-of-stream", closer, wantX, yerr)
	default:
		r.FailSig("no-eof", sigBase, "%s: %s closed after writing %d bytes; the other end has %d and never saw end-of-stream: %v", out, closer, wantX, yr, cs.Describe())
	}
}
