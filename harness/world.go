package verif

import (
	"fmt"
	"os"
	"path/filepath"
	"strings"

	"github.com/bokysan/socketace/v2/internal/client/listener"
	"github.com/bokysan/socketace/v2/internal/client/upstream"
	clientCmd "github.com/bokysan/socketace/v2/internal/commands/client"
	serverCmd "github.com/bokysan/socketace/v2/internal/commands/server"
	"github.com/bokysan/socketace/v2/internal/server"
	"github.com/bokysan/socketace/v2/internal/simrt"
	"github.com/bokysan/socketace/v2/internal/streams"
	"github.com/goccy/go-yaml"
	flags "github.com/jessevdk/go-flags"
)

const (
	ServerIP   = "10.0.0.1"
	ServerName = "server.test"
	ClientIP   = "10.0.0.2"
	TargetIP   = "10.0.0.9"
	Domain     = "t.example.org"
)

// Carriers lists every carrier kind a world can be built on.
var Carriers = []string{"tcp", "unix", "tcp+tls", "unix+tls", "ws", "wss", "stdio", "stdio+tls", "udp", "udp+pass", "dns+udp", "dns+tcp"}

func CarrierEncrypted(c string) bool {
	switch c {
	case "tcp+tls", "unix+tls", "wss", "stdio+tls":
		return true
	}
	return false
}

func CarrierIsDNS(c string) bool { return strings.HasPrefix(c, "dns") }
func CarrierIsKCP(c string) bool { return strings.HasPrefix(c, "udp") }

type ChanCfg struct {
	Name   string
	Target string // e.g. tcp://10.0.0.9:7001
}

type LsnCfg struct {
	Channel string
	Kind    string // tcp (default), unix, stdio
	Addr    string // host:port or socket name
	Forward string // optional direct forward address, e.g. tcp://10.0.0.9:7001
}

type WorldCfg struct {
	Carrier                string
	ServerCert             string // "", good, wronghost, untrusted, expired, short
	RequireClientCert      bool
	ServerCertFiles        bool   // the server gets certificate and key as files (read on use) instead of inline PEM
	ServerCA               string // CA the server trusts for client certificates: "", good, foreign
	ClientCA               string // CA the client trusts: "", good, foreign
	ClientCert             string // "", good, foreign, impostor (CA of the same name as the good one, other key)
	ClientSecure           bool   // -s
	ClientInsecure         bool   // -k
	ClientCAFile           bool   // the client's CA certificate is given as a file (read at every connect)
	UseHostName            bool   // upstream URL names server.test instead of the IP literal
	UsePortOnly            bool   // upstream URL has no host part (tcp://:port)
	ClientPassword         string // udp+pass: the client's secret (defaults to the server's)
	Channels               []ChanCfg
	ServerAllow            []string // allow-list of the server endpoint (nil = all)
	WsPaths                []WsPath // extra websocket paths (ws/wss carriers)
	ClientWsPath           string   // path the client connects to (default /ws/all)
	Listeners              []LsnCfg
	ExtraUpstreams         []string // tried before (Pre) or after the carrier's upstream
	PreUpstreams           []string
	NoClient               bool
	NoServer               bool
	ServerMayRefuseToStart bool // a start-up error of the server is an accepted outcome (World.ServerStartErr)
	// Multi-endpoint worlds (C16): rendered server entries and the explicit upstream list.
	ServerEntries []string
	Upstreams     []string
}

type WsPath struct {
	Path  string
	Allow []string
}

type World struct {
	R       *Run
	Cfg     WorldCfg
	Server  *serverCmd.Command
	Client  *clientCmd.Command
	Clients []*clientCmd.Command
	Targets []*Target
	// stdio carrier: the two pipe ends
	stdioSrv, stdioCli *simrt.Conn
	// stdio listener: harness side of the pipe, by channel
	StdioApp map[string]*simrt.Conn

	ServerYAML     string
	ClientArgs     []string
	UpstreamURL    string
	ServerAddr     string
	ServerStartErr error
	interrupted    chan os.Signal
}

func certFor(kind string) *KeyPair {
	p := GetPKI()
	switch kind {
	case "good":
		return &p.SrvGood
	case "good-name":
		return &p.SrvGoodName
	case "good-ip":
		return &p.SrvGoodIP
	case "good-domain":
		return &p.SrvGoodDom
	case "wronghost":
		return &p.SrvWrongHost
	case "untrusted":
		return &p.SrvUntrusted
	case "expired":
		return &p.SrvExpired
	case "short":
		return &p.SrvShort
	case "expiring-soon":
		return &p.SrvExpiring
	case "not-yet-valid":
		return &p.SrvNotYet
	}
	return nil
}

func caFor(kind string) *KeyPair {
	p := GetPKI()
	switch kind {
	case "good":
		return &p.GoodCA
	case "foreign":
		return &p.ForeignCA
	}
	return nil
}

func indent(s string, n int) string {
	pad := strings.Repeat(" ", n)
	lines := strings.Split(strings.TrimRight(s, "\n"), "\n")
	for i := range lines {
		lines[i] = pad + lines[i]
	}
	return strings.Join(lines, "\n")
}

func yamlList(xs []string) string {
	q := make([]string, len(xs))
	for i, x := range xs {
		q[i] = fmt.Sprintf("%q", x)
	}
	return "[" + strings.Join(q, ", ") + "]"
}

// serverEntry renders one entry of the server's "servers" list and returns
// the upstream URL a client uses to reach it.
func serverEntry(cfg *WorldCfg, carrier string, port int) (yamlText, upstreamURL, listenAddr string) {
	host := ServerIP
	uhost := ServerIP
	if cfg.UseHostName {
		uhost = ServerName
	}
	if cfg.UsePortOnly && (carrier == "tcp" || carrier == "tcp+tls") {
		uhost = "" // "tcp://:9000": no host at all (the harness redirects the wildcard address to the server)
	}
	var b strings.Builder
	var address string
	switch carrier {
	case "tcp":
		address = fmt.Sprintf("tcp://%s:%d", host, port)
		upstreamURL = fmt.Sprintf("tcp://%s:%d", uhost, port)
	case "tcp+tls":
		address = fmt.Sprintf("tcp+tls://%s:%d", host, port)
		upstreamURL = fmt.Sprintf("tcp+tls://%s:%d", uhost, port)
	case "unix":
		address = fmt.Sprintf("unix://sa-%d.sock", port)
		upstreamURL = address
	case "unix+tls":
		address = fmt.Sprintf("unix+tls://sa-%d.sock", port)
		upstreamURL = address
	case "ws":
		address = fmt.Sprintf("http://%s:%d", host, port)
	case "wss":
		address = fmt.Sprintf("https://%s:%d", host, port)
	case "stdio":
		address = "stdin://"
		upstreamURL = "stdin://"
	case "stdio+tls":
		address = "stdin+tls://"
		upstreamURL = "stdin+tls://"
	case "udp":
		address = fmt.Sprintf("udp://%s:%d", host, port)
		upstreamURL = fmt.Sprintf("udp://%s:%d", uhost, port)
	case "udp+pass":
		address = fmt.Sprintf("udp://sa:s3cret-%d@%s:%d", port, host, port)
		pw := cfg.ClientPassword
		if pw == "" {
			pw = fmt.Sprintf("s3cret-%d", port)
		}
		if pw == "-" {
			upstreamURL = fmt.Sprintf("udp://%s:%d", uhost, port)
		} else {
			upstreamURL = fmt.Sprintf("udp://sa:%s@%s:%d", pw, uhost, port)
		}
	case "dns+udp":
		address = fmt.Sprintf("dns+udp://%s:%d", host, port)
		upstreamURL = fmt.Sprintf("dns://%s?direct=false&dns=%s:%d", Domain, host, port)
	case "dns+tcp":
		address = fmt.Sprintf("dns+tcp://%s:%d", host, port)
		upstreamURL = fmt.Sprintf("dns://%s?direct=false&dns=%s:%d", Domain, host, port)
	default:
		panic("unknown carrier " + carrier)
	}
	listenAddr = address
	fmt.Fprintf(&b, "- address: %q\n", address)
	if CarrierIsDNS(carrier) {
		fmt.Fprintf(&b, "  domain: %q\n", Domain)
	}
	if carrier == "ws" || carrier == "wss" {
		scheme := "ws"
		if carrier == "wss" {
			scheme = "wss"
		}
		path := cfg.ClientWsPath
		if path == "" {
			path = "/ws/all"
		}
		upstreamURL = fmt.Sprintf("%s://%s:%d%s", scheme, uhost, port, path)
		b.WriteString("  endpoints:\n")
		fmt.Fprintf(&b, "    - endpoint: \"/ws/all\"\n")
		if cfg.ServerAllow != nil {
			fmt.Fprintf(&b, "      channels: %s\n", yamlList(cfg.ServerAllow))
		}
		for _, p := range cfg.WsPaths {
			fmt.Fprintf(&b, "    - endpoint: %q\n", p.Path)
			if p.Allow != nil {
				fmt.Fprintf(&b, "      channels: %s\n", yamlList(p.Allow))
			}
		}
	} else if cfg.ServerAllow != nil {
		fmt.Fprintf(&b, "  channels: %s\n", yamlList(cfg.ServerAllow))
	}
	if kp := certFor(cfg.ServerCert); kp != nil {
		if cfg.ServerCertFiles {
			// the server reads certificate and key from disk (each read takes simulated time)
			fmt.Fprintf(&b, "  certificateFile: %q\n", pkiFile(cfg.ServerCert+".crt", kp.CertPEM))
			fmt.Fprintf(&b, "  privateKeyFile: %q\n", pkiFile(cfg.ServerCert+".key", kp.KeyPEM))
		} else {
			fmt.Fprintf(&b, "  certificate: |\n%s\n", indent(kp.CertPEM, 4))
			fmt.Fprintf(&b, "  privateKey: |\n%s\n", indent(kp.KeyPEM, 4))
		}
	}
	if ca := caFor(cfg.ServerCA); ca != nil {
		fmt.Fprintf(&b, "  caCertificate: |\n%s\n", indent(ca.CertPEM, 4))
	}
	if cfg.RequireClientCert {
		b.WriteString("  requireClientCert: true\n")
	}
	return b.String(), upstreamURL, listenAddr
}

func CarrierPort(carrier string) int {
	for i, c := range Carriers {
		if c == carrier {
			return 9000 + i
		}
	}
	return 9999
}

// BuildWorld starts recording targets, a real server command configured
// through the real YAML path, and a real client command configured through
// the real command-line flag parser, all on the run's simulated network.
func BuildWorld(r *Run, cfg WorldCfg) (*World, error) {
	w := &World{R: r, Cfg: cfg, StdioApp: map[string]*simrt.Conn{}, interrupted: make(chan os.Signal, 1)}
	n := r.Net
	n.AddHost(ServerName, ServerIP)
	n.AddHost("other.test", "10.9.9.9")
	n.AddHost("target.test", TargetIP)

	// targets
	n.SourceIP = ServerIP
	for i, ch := range cfg.Channels {
		if ch.Target == "" {
			continue
		}
		network, address := splitURL(ch.Target)
		dup := false
		for _, t := range w.Targets {
			if t.Addr == address {
				dup = true
			}
		}
		if dup {
			continue
		}
		t, err := StartTarget(r, i, "T"+fmt.Sprint(i), network, address)
		if err != nil {
			return nil, fmt.Errorf("target %s: %v", ch.Target, err)
		}
		w.Targets = append(w.Targets, t)
	}

	// server
	if !cfg.NoServer {
		var y strings.Builder
		y.WriteString("channels:\n")
		for _, ch := range cfg.Channels {
			fmt.Fprintf(&y, "  - name: %q\n    address: %q\n", ch.Name, ch.Target)
		}
		y.WriteString("servers:\n")
		if len(cfg.ServerEntries) > 0 {
			for _, e := range cfg.ServerEntries {
				y.WriteString(indent(e, 2) + "\n")
			}
		} else {
			entry, up, listen := serverEntry(&cfg, cfg.Carrier, CarrierPort(cfg.Carrier))
			y.WriteString(indent(entry, 2) + "\n")
			w.UpstreamURL = up
			w.ServerAddr = listen
		}
		w.ServerYAML = y.String()
		cmd := serverCmd.NewCommand()
		if err := yaml.Unmarshal([]byte(w.ServerYAML), cmd); err != nil {
			return nil, &ConfigError{Side: "server", Err: err}
		}
		w.Server = cmd
		if strings.HasPrefix(cfg.Carrier, "stdio") {
			a, b := n.Pipe("stdio-carrier")
			w.stdioSrv, w.stdioCli = a, b
			for _, s := range cmd.Servers {
				if io, ok := s.(*server.IoServer); ok {
					io.Input = a
					io.Output = a
				}
			}
		}
		n.SourceIP = ServerIP
		if err := cmd.Startup(w.interrupted); err != nil {
			if !cfg.ServerMayRefuseToStart {
				return nil, &ConfigError{Side: "server-startup", Err: err}
			}
			// a configuration the server is entitled to reject: the world goes on without a server
			w.ServerStartErr = err
			r.Logf("server refused to start: %v", err)
			w.Server = nil // (the real command exits at this point; nothing is shut down)
		} else {
			r.OnCleanup(func() { cmd.Shutdown() })
		}
	} else {
		_, up, _ := serverEntry(&cfg, cfg.Carrier, CarrierPort(cfg.Carrier))
		w.UpstreamURL = up
	}

	// client
	if !cfg.NoClient {
		if err := w.StartClient(); err != nil {
			return nil, err
		}
	}
	n.SourceIP = ClientIP
	return w, nil
}

// RestartServer models a server crash and restart: every socket of the old
// process is reset, the object graph is dropped, and a new server command is
// started from the same configuration on the same addresses.
func (w *World) RestartServer() error {
	if w.Server != nil {
		w.Server.Shutdown()
	}
	// reset every connection the server process held (accepted carrier connections and its dials to targets)
	for _, cn := range w.R.Net.Conns() {
		if cn.Tag == "accept" && !hasPrefix(cn.Key, "tcp|127.0.0.1") && !hasPrefix(cn.Key, "tcp|"+TargetIP) && !hasPrefix(cn.Key, "pipe|") {
			w.R.Net.Reset(cn)
			cn.Close()
		}
		if cn.Tag == "dial" && hasPrefix(cn.Key, "tcp|"+TargetIP) {
			w.R.Net.Reset(cn)
			cn.Close()
		}
	}
	for _, s := range w.R.Net.Socks() {
		if hasPrefix(s.Key(), "udp|"+ServerIP) {
			s.Close()
		}
	}
	for _, l := range w.R.Net.Listeners() {
		if hasPrefix(l.Key(), "tcp|"+ServerIP) || hasPrefix(l.Key(), "unix|sa-") {
			l.Close()
		}
	}
	cmd := serverCmd.NewCommand()
	if err := yaml.Unmarshal([]byte(w.ServerYAML), cmd); err != nil {
		return &ConfigError{Side: "server", Err: err}
	}
	w.Server = cmd
	w.R.Net.SourceIP = ServerIP
	if err := cmd.Startup(w.interrupted); err != nil {
		return &ConfigError{Side: "server-restart", Err: err}
	}
	w.R.Net.SourceIP = ClientIP
	w.R.OnCleanup(func() { cmd.Shutdown() })
	return nil
}

type ConfigError struct {
	Side string
	Err  error
}

func (e *ConfigError) Error() string { return e.Side + " configuration: " + e.Err.Error() }

func (w *World) StartClient() error {
	cmd, err := w.NewClient(w.Cfg.Listeners)
	if err != nil {
		return err
	}
	w.Client = cmd
	return nil
}

// NewClient starts one more real client command with the given listeners.
func (w *World) NewClient(listeners []LsnCfg) (*clientCmd.Command, error) {
	cfg := w.Cfg
	n := w.R.Net
	args := []string{}
	for _, u := range cfg.PreUpstreams {
		args = append(args, "-u", u)
	}
	if len(cfg.Upstreams) > 0 {
		for _, u := range cfg.Upstreams {
			args = append(args, "-u", u)
		}
	} else {
		args = append(args, "-u", w.UpstreamURL)
	}
	for _, u := range cfg.ExtraUpstreams {
		args = append(args, "-u", u)
	}
	for _, l := range listeners {
		spec := ""
		switch l.Kind {
		case "", "tcp":
			spec = fmt.Sprintf("%s~tcp://%s", l.Channel, l.Addr)
		case "unix":
			spec = fmt.Sprintf("%s~unix://%s", l.Channel, l.Addr)
		case "stdio":
			spec = fmt.Sprintf("%s~stdin://", l.Channel)
		}
		if l.Forward != "" {
			spec += "~" + l.Forward
		}
		args = append(args, "-l", spec)
	}
	if cfg.ClientSecure {
		args = append(args, "-s")
	}
	if cfg.ClientInsecure {
		args = append(args, "-k")
	}
	if ca := caFor(cfg.ClientCA); ca != nil {
		if cfg.ClientCAFile {
			// the client reads its CA certificates from a file whenever it builds a TLS configuration
			args = append(args, "--ca-certificate-file", pkiFile("client-ca-"+cfg.ClientCA+".crt", ca.CertPEM))
		} else {
			args = append(args, "--ca-certificate", ca.CertPEM)
		}
	}
	switch cfg.ClientCert {
	case "good":
		args = append(args, "--certificate", GetPKI().CliGood.CertPEM, "--private-key", GetPKI().CliGood.KeyPEM)
	case "foreign":
		args = append(args, "--certificate", GetPKI().CliForeign.CertPEM, "--private-key", GetPKI().CliForeign.KeyPEM)
	case "impostor":
		args = append(args, "--certificate", GetPKI().CliImpostor.CertPEM, "--private-key", GetPKI().CliImpostor.KeyPEM)
	}
	w.ClientArgs = args
	cmd := clientCmd.NewCommand()
	parser := flags.NewParser(cmd, flags.PassDoubleDash)
	if _, err := parser.ParseArgs(args); err != nil {
		return nil, &ConfigError{Side: "client", Err: err}
	}
	if strings.HasPrefix(cfg.Carrier, "stdio") {
		for _, u := range cmd.Upstream.Data {
			if io, ok := u.(*upstream.InputOutput); ok {
				io.Input = w.stdioCli
				io.Output = w.stdioCli
			}
		}
	}
	for _, l := range cmd.ListenList {
		if io, ok := l.(*listener.InputOutputListener); ok {
			a, b := n.Pipe("stdio-listener-" + io.Name)
			var c streams.Connection = streams.NewSafeConnection(a)
			io.InputOutput = c
			w.StdioApp[io.Name] = b
		}
	}
	n.SourceIP = ClientIP
	if err := cmd.Startup(w.interrupted); err != nil {
		return nil, &ConfigError{Side: "client-startup", Err: err}
	}
	w.R.OnCleanup(func() { cmd.Shutdown() })
	w.Clients = append(w.Clients, cmd)
	return cmd, nil
}

func splitURL(u string) (network, address string) {
	i := strings.Index(u, "://")
	if i < 0 {
		return "tcp", u
	}
	return u[:i], u[i+3:]
}

// Dial connects an application to a client listener.
func (w *World) DialApp(l LsnCfg) (*simrt.Conn, error) {
	if l.Kind == "stdio" {
		c := w.StdioApp[l.Channel]
		if c == nil {
			return nil, fmt.Errorf("no stdio listener for %s", l.Channel)
		}
		return c, nil
	}
	network := "tcp"
	if l.Kind == "unix" {
		network = "unix"
	}
	w.R.Net.SourceIP = ClientIP
	c, err := w.R.Net.Dial(network, l.Addr, 0)
	if err != nil {
		return nil, err
	}
	return c.(*simrt.Conn), nil
}

var pkiDir string
var pkiFiles = map[string]string{}

// pkiFile writes a fixture to a per-process directory next to the worker binary (inside the scratch
// build, removed with it) and returns its path.
// pkiPaths returns the fixture files (certificate, key) written for a server certificate kind, if any.
func pkiPaths(kind string) []string {
	var out []string
	for _, n := range []string{kind + ".crt", kind + ".key"} {
		if p, ok := pkiFiles[n]; ok {
			out = append(out, p)
		}
	}
	return out
}

func pkiFile(name, content string) string {
	if p, ok := pkiFiles[name]; ok {
		return p
	}
	if pkiDir == "" {
		wd, _ := os.Getwd()
		pkiDir = filepath.Join(wd, fmt.Sprintf("pki-%d", os.Getpid()))
		os.MkdirAll(pkiDir, 0700)
	}
	p := filepath.Join(pkiDir, name)
	if err := os.WriteFile(p, []byte(content), 0600); err != nil {
		panic(err)
	}
	pkiFiles[name] = p
	simrt.VirtualFiles[p] = []byte(content)
	return p
}
