package verif

import (
	"bytes"
	"fmt"
	"strings"
	"testing/synctest"
	"time"

	"github.com/bokysan/socketace/v2/internal/simrt"
	"github.com/bokysan/socketace/v2/internal/socketace"
	"github.com/bokysan/socketace/v2/internal/util/cert"
)

func init() { Scenarios["C06"] = scenarioC06 }

const c06Version = "v2.0.0"

type c06input struct {
	Class   string // VALID, INVALID, AMBIGUOUS
	Kind    string
	Bytes   []byte
	Tail    []byte // bytes following the handshake (VALID only): must reach the next layer intact
	SrvCert bool   // server role: the server has a certificate (it can offer StartTLS)
	Stall   bool   // the peer sends what it has and then neither sends more nor hangs up
}

// ---- generators (server role: the bytes a client sends)

func hdrCase(c *Chooser, s string) string {
	switch c.Pick(3, "hdr-case") {
	case 1:
		return strings.ToLower(s)
	case 2:
		return strings.ToUpper(s)
	}
	return s
}

func genAnnounce(c *Chooser, versions string, method string) string {
	var b strings.Builder
	fmt.Fprintf(&b, "%s / HTTP/1.1\r\n", method)
	hs := []string{
		hdrCase(c, "Accepts-Protocol-Version") + ": " + versions,
		hdrCase(c, "User-Agent") + ": socketace/test",
	}
	if c.Chance(1, 3, "extra-header") {
		hs = append(hs, "X-Extra: "+strings.Repeat("z", 1+c.Pick(200, "extra-len")))
	}
	if c.Chance(1, 2, "hdr-order") {
		hs[0], hs[1] = hs[1], hs[0]
	}
	for _, h := range hs {
		b.WriteString(h + "\r\n")
	}
	b.WriteString("\r\n")
	return b.String()
}

func genUpgrade(c *Chooser, method, conn, upg string) string {
	var b strings.Builder
	fmt.Fprintf(&b, "%s / HTTP/1.1\r\n", method)
	var hs []string
	if conn != "" {
		hs = append(hs, hdrCase(c, "Connection")+": "+conn)
	}
	if upg != "" {
		hs = append(hs, hdrCase(c, "Upgrade")+": "+upg)
	}
	hs = append(hs, "User-Agent: socketace/test")
	for _, h := range hs {
		b.WriteString(h + "\r\n")
	}
	b.WriteString("\r\n")
	return b.String()
}

func genServerRoleInput(c *Chooser) c06input {
	okVersions := []string{c06Version, "v9.9.9, " + c06Version, c06Version + ",v1.0.0", "v0.1 , " + c06Version + " , v3"}
	okConn := []string{"upgrade", "Upgrade", "UPGRADE"}
	validA := func() string { return genAnnounce(c, okVersions[c.Pick(len(okVersions), "versions")], "X-SOCKETACE") }
	validU := func() string {
		return genUpgrade(c, "GET", okConn[c.Pick(len(okConn), "conn-token")], "socketace/"+c06Version)
	}
	tail := make([]byte, 1+c.Pick(64, "tail-len"))
	prfFill(0x7a11, 0, tail)
	// a malformed upgrade may ask for StartTLS, of a server that has a certificate and could grant it to a
	// well-formed one: the request for protection must not stand in for the rest of the request
	withStartTLS := func(in c06input) c06input {
		if c.Chance(1, 2, "asks-for-starttls") {
			in.Bytes = []byte(strings.Replace(string(in.Bytes), "User-Agent:", "Security: StartTLS\r\nUser-Agent:", 1))
			in.SrvCert = true
			in.Kind += "+starttls"
		}
		return in
	}
	k := c.Pick(17, "input-kind")
	switch k {
	case 0, 1, 2:
		return c06input{Class: "VALID", Kind: "valid", Bytes: []byte(validA() + validU()), Tail: tail}
	case 3:
		full := validA() + validU()
		cut := c.Pick(len(full), "truncate-at")
		return c06input{Class: "INVALID", Kind: "truncated", Bytes: []byte(full[:cut]), Stall: c.Chance(1, 2, "stalls-instead-of-hanging-up")}
	case 4:
		return c06input{Class: "AMBIGUOUS", Kind: "oversized-header", Bytes: []byte("X-SOCKETACE / HTTP/1.1\r\nAccepts-Protocol-Version: " + c06Version + "\r\nX-Big: " + strings.Repeat("a", 5000+c.Pick(70000, "big")) + "\r\n\r\n" + validU())}
	case 5:
		m := []string{"GET", "POST", "x-socketace", "X-SOCKETACE2", ""}[c.Pick(5, "method")]
		return c06input{Class: "INVALID", Kind: "wrong-announce-method", Bytes: []byte(genAnnounce(c, c06Version, m) + validU())}
	case 6:
		// unsupported versions and near-misses of the supported one: the list is comma-separated, an entry
		// counts only if it equals the supported version after trimming blanks
		bad := []string{"", "v1.0.0", "v2.0.1", "v2.0.0x", "V2.0.0", "v1, v3",
			c06Version + " beta", "v1.0.0 " + c06Version, "v3.0.0, experimental " + c06Version, c06Version + "\tdraft, v1.0.0",
			c06Version + ";q=1", "x" + c06Version, "socketace/" + c06Version, c06Version + ".", c06Version + "-rc1", c06Version[:len(c06Version)-2],
			"\"" + c06Version + "\"", c06Version + " " + c06Version, "v1.0.0;" + c06Version, c06Version[1:]}
		v := bad[c.Pick(len(bad), "bad-version")]
		// the peer presses on after the refusal: with the proper upgrade, with an upgrade naming no version
		// (what a server that negotiated nothing might expect), or with the version it offered itself
		up := validU()
		switch c.Pick(4, "upgrade-after-refusal") {
		case 1:
			up = genUpgrade(c, "GET", okConn[c.Pick(len(okConn), "conn-token")], "socketace/")
		case 2:
			up = genUpgrade(c, "GET", okConn[c.Pick(len(okConn), "conn-token")], "socketace/"+strings.TrimSpace(strings.Split(v, ",")[0]))
		}
		return c06input{Class: "INVALID", Kind: "unsupported-version", Bytes: []byte(genAnnounce(c, v, "X-SOCKETACE") + up)}
	case 16:
		// a request line that is as long as the read buffer (4096) or a little more or less, padded with
		// blanks, with header-looking text at its end and no header lines: it offers no version at all
		pad := 4088 + c.Pick(16, "line-pad")
		line := "X-SOCKETACE / HTTP/1.1" + strings.Repeat(" ", pad-22) + "Accepts-Protocol-Version: " + c06Version
		return c06input{Class: "INVALID", Kind: "long-request-line-no-version", Bytes: []byte(line + "\r\n\r\n" + validU())}
	case 7:
		m := []string{"POST", "X-SOCKETACE", "get"}[c.Pick(3, "method")]
		return withStartTLS(c06input{Class: "INVALID", Kind: "wrong-upgrade-method", Bytes: []byte(validA() + genUpgrade(c, m, "upgrade", "socketace/"+c06Version))})
	case 8:
		u := []string{"", "socketace/v1.0.0", "websocket", "socketace/", "socketace/" + c06Version + "x"}[c.Pick(5, "bad-upgrade")]
		return withStartTLS(c06input{Class: "INVALID", Kind: "wrong-upgrade-token", Bytes: []byte(validA() + genUpgrade(c, "GET", "upgrade", u))})
	case 9:
		cn := []string{"", "keep-alive", "close", "upgrade2"}[c.Pick(4, "bad-conn")]
		return withStartTLS(c06input{Class: "INVALID", Kind: "wrong-connection-token", Bytes: []byte(validA() + genUpgrade(c, "GET", cn, "socketace/"+c06Version))})
	case 10:
		n := 1 + c.Pick(300, "noise-len")
		b := make([]byte, n)
		prfFill(uint64(0x9015e+c.Pick(1<<20, "noise-key")), 0, b)
		return c06input{Class: "AMBIGUOUS", Kind: "binary-noise", Bytes: b}
	case 11:
		line := []string{"X-SOCKETACE", "X-SOCKETACE /", "X-SOCKETACE  ", " ", "\r\n", "X-SOCKETACE / HTTP/1.1"}[c.Pick(6, "bad-line")]
		return c06input{Class: "INVALID", Kind: "malformed-request-line", Bytes: []byte(line + "\r\n\r\n")}
	case 12:
		// bare LF line ends, header folding, NUL and 8-bit bytes: outcome not prescribed, must be stable
		s := validA() + validU()
		switch c.Pick(4, "ambig") {
		case 0:
			s = strings.Replace(s, "\r\n", "\n", -1)
		case 1:
			s = strings.Replace(s, "User-Agent: socketace/test\r\n", "User-Agent: socketace\r\n /test\r\n", 1)
		case 2:
			s = strings.Replace(s, "socketace/test", "socket\x00ace", 1)
		default:
			s = strings.Replace(s, "socketace/test", "s\xf6cket\xe4ce", 1)
		}
		return c06input{Class: "AMBIGUOUS", Kind: "lenient-syntax", Bytes: []byte(s)}
	case 13:
		// mutation: flip/drop/insert a byte of a valid exchange
		b := []byte(validA() + validU())
		pos := c.Pick(len(b), "mut-pos")
		switch c.Pick(3, "mut-op") {
		case 0:
			b[pos] ^= byte(1 << uint(c.Pick(8, "bit")))
		case 1:
			b = append(b[:pos], b[pos+1:]...)
		default:
			b = append(b[:pos], append([]byte{byte(c.Pick(256, "ins"))}, b[pos:]...)...)
		}
		return c06input{Class: "AMBIGUOUS", Kind: "mutated", Bytes: b}
	case 14:
		// first request alone, nothing else ever
		return c06input{Class: "INVALID", Kind: "announce-only", Bytes: []byte(validA()), Stall: c.Chance(1, 2, "stalls-instead-of-hanging-up")}
	}
	// security header the server cannot honour (no certificate configured)
	s := validA() + strings.Replace(validU(), "User-Agent:", "Security: StartTLS\r\nUser-Agent:", 1)
	return c06input{Class: "INVALID", Kind: "starttls-without-server-support", Bytes: []byte(s)}
}

// ---- generators (client role: the bytes a server sends)

func genClientRoleInput(c *Chooser) c06input {
	r200 := func(status string, pv string) string {
		s := "HTTP/1.1 " + status + "\r\nServer: socketace/test\r\n"
		if pv != "" {
			s += "Protocol-Version: " + pv + "\r\n"
		}
		return s + "\r\n"
	}
	r101 := func(status string) string {
		return "HTTP/1.1 " + status + "\r\nConnection: upgrade\r\nUpgrade: socketace/" + c06Version + "\r\nServer: socketace/test\r\n\r\n"
	}
	tail := make([]byte, 1+c.Pick(64, "tail-len"))
	prfFill(0x7a12, 0, tail)
	switch c.Pick(12, "input-kind") {
	case 0, 1, 2:
		return c06input{Class: "VALID", Kind: "valid", Bytes: []byte(r200("200 OK", c06Version) + r101("101 Switching Protocols")), Tail: tail}
	case 3:
		st := []string{"400 Bad Request", "405 Method Not Allowed", "409 Conflict", "500 Oops", "101 Switching Protocols", "201 Created"}[c.Pick(6, "status")]
		return c06input{Class: "INVALID", Kind: "first-status-not-200", Bytes: []byte(r200(st, c06Version) + r101("101 Switching Protocols"))}
	case 4:
		st := []string{"200 OK", "406 Not acceptable", "503 Service Unavailable", "100 Continue"}[c.Pick(4, "status")]
		return c06input{Class: "INVALID", Kind: "second-status-not-101", Bytes: []byte(r200("200 OK", c06Version) + r101(st))}
	case 5:
		full := r200("200 OK", c06Version) + r101("101 Switching Protocols")
		return c06input{Class: "INVALID", Kind: "truncated", Bytes: []byte(full[:c.Pick(len(full), "truncate-at")]), Stall: c.Chance(1, 2, "stalls-instead-of-hanging-up")}
	case 6:
		line := []string{"HTTP/1.1", "HTTP/1.1 200", "HTTP/1.1 abc OK", "HTTP/1.1  200 OK", "200 OK", " ", "HTTP/1.1 99999999999999999999 OK", "HTTP/1.1 -200 OK"}[c.Pick(8, "bad-status-line")]
		return c06input{Class: "INVALID", Kind: "malformed-status-line", Bytes: []byte(line + "\r\n\r\n" + r101("101 Switching Protocols"))}
	case 7:
		return c06input{Class: "AMBIGUOUS", Kind: "oversized-header", Bytes: []byte("HTTP/1.1 200 OK\r\nX-Big: " + strings.Repeat("b", 5000+c.Pick(70000, "big")) + "\r\n\r\n" + r101("101 Switching Protocols"))}
	case 8:
		n := 1 + c.Pick(300, "noise-len")
		b := make([]byte, n)
		prfFill(uint64(0x5e14e+c.Pick(1<<20, "noise-key")), 0, b)
		return c06input{Class: "AMBIGUOUS", Kind: "binary-noise", Bytes: b}
	case 9:
		b := []byte(r200("200 OK", c06Version) + r101("101 Switching Protocols"))
		pos := c.Pick(len(b), "mut-pos")
		switch c.Pick(3, "mut-op") {
		case 0:
			b[pos] ^= byte(1 << uint(c.Pick(8, "bit")))
		case 1:
			b = append(b[:pos], b[pos+1:]...)
		default:
			b = append(b[:pos], append([]byte{byte(c.Pick(256, "ins"))}, b[pos:]...)...)
		}
		return c06input{Class: "AMBIGUOUS", Kind: "mutated", Bytes: b}
	case 10:
		// capability list variants (no TLS manager on the client: StartTLS is requested, then TLS fails on our noise)
		caps := []string{"StartTLS", "starttls", "STARTTLS, Other", ",,", "X"}[c.Pick(5, "caps")]
		s := "HTTP/1.1 200 OK\r\nCapabilities: " + caps + "\r\nProtocol-Version: " + c06Version + "\r\n\r\n" + r101("101 Switching Protocols")
		return c06input{Class: "AMBIGUOUS", Kind: "capabilities", Bytes: []byte(s)}
	}
	s := strings.Replace(r200("200 OK", c06Version)+r101("101 Switching Protocols"), "\r\n", "\n", -1)
	return c06input{Class: "AMBIGUOUS", Kind: "lenient-syntax", Bytes: []byte(s)}
}

type c06outcome struct {
	Established bool
	Err         string
	PeerSaw     []byte // what the code under test wrote back (status lines / requests)
	NextLayer   []byte // first bytes the established connection hands to the next layer
}

func (o c06outcome) key() string {
	return fmt.Sprintf("est=%v|wrote=%q|next=%q", o.Established, statusLines(o.PeerSaw), o.NextLayer)
}

// statusLines keeps only the first line of each message written (the Message header quotes
// error texts; status lines are what the property speaks about).
func statusLines(b []byte) string {
	var out []string
	for _, msg := range strings.Split(string(b), "\r\n\r\n") {
		if msg == "" {
			continue
		}
		line := strings.SplitN(msg, "\r\n", 2)[0]
		printable := true
		for i := 0; i < len(line); i++ {
			if line[i] < 0x20 || line[i] > 0x7e {
				printable = false
			}
		}
		if !printable {
			// a TLS record (StartTLS begun): its bytes are random by design and not part of the outcome
			out = append(out, "<binary>")
			break
		}
		out = append(out, line)
	}
	return strings.Join(out, " | ")
}

// runHandshake feeds input to the real handshake code under one segmentation.
func runHandshake(r *Run, role string, in c06input, seg int, secure bool) c06outcome {
	n := r.Net
	a, b := n.Pipe(fmt.Sprintf("c06-%d", seg))
	type res struct {
		est  bool
		err  error
		next []byte
	}
	done := make(chan res, 1)
	go func() {
		var conn interface {
			Read([]byte) (int, error)
			Close() error
		}
		var err error
		if role == "server" {
			var sc *socketace.ServerConnection
			mgr := &cert.ServerConfig{}
			if in.SrvCert {
				kp := GetPKI().SrvGood
				mgr.Certificate, mgr.PrivateKey = kp.CertPEM, kp.KeyPEM
			}
			sc, err = socketace.NewServerConnection(b, mgr, secure)
			if sc != nil {
				conn = sc
			}
		} else {
			var cc *socketace.ClientConnection
			cc, err = socketace.NewClientConnection(b, &cert.ClientConfig{InsecureSkipVerify: true}, secure, "server.test:1")
			if cc != nil {
				conn = cc
			}
		}
		if err != nil || conn == nil {
			b.Close()
			done <- res{err: err}
			return
		}
		// established: the next layer reads what follows the handshake
		want := len(in.Tail)
		var got []byte
		buf := make([]byte, 256)
		for len(got) < want {
			k, e := conn.Read(buf)
			got = append(got, buf[:k]...)
			if e != nil {
				break
			}
		}
		conn.Close()
		done <- res{est: true, next: got}
	}()
	// scripted peer: everything is written up front; the driver decides how it arrives
	payload := append(append([]byte{}, in.Bytes...), in.Tail...)
	a.Write(payload)
	var peerSaw []byte
	readerDone := make(chan struct{})
	go func() {
		buf := make([]byte, 4096)
		for {
			k, err := a.Read(buf)
			peerSaw = append(peerSaw, buf[:k]...)
			if err != nil {
				close(readerDone)
				return
			}
		}
	}()
	out := a.Out()
	closed := false
	var result res
	got := false
	for steps := 0; steps < 200000 && !got; steps++ {
		synctest.Wait()
		select {
		case result = <-done:
			got = true
			continue
		default:
		}
		var st, back simrt.LinkState
		for _, ls := range n.LinkStates() {
			if ls.ID == out.ID {
				st = ls
			}
			if ls.ID == a.In().ID {
				back = ls
			}
		}
		if back.Inflight > 0 {
			n.Deliver(a.In(), back.Inflight)
			continue
		}
		if st.Inflight > 0 {
			k := st.Inflight
			switch seg {
			case 1:
				k = 1
			case 2:
				k = 1 + r.Ch.Pick(st.Inflight, "seg-rand")
			case 3:
				// cut right after a CR, i.e. inside CRLF
				k = 1 + r.Ch.Pick(min(st.Inflight, 40), "seg-crlf")
			}
			n.Deliver(out, k)
			continue
		}
		if back.FinPending {
			n.DeliverFin(a.In())
			continue
		}
		if !closed && in.Stall {
			// nothing more will come, and the peer does not hang up either: the code under test has to give it
			// up by itself, within its handshake bound (30 s) - two simulated minutes are allowed
			closed = true
			t := time.NewTimer(2 * time.Minute)
			select {
			case result = <-done:
				got = true
			case <-t.C:
				got = true
				result = res{err: fmt.Errorf("handshake goroutine never returned")}
				r.FailSig("stalled-peer-never-given-up", fmt.Sprintf("role=%s kind=%s", role, in.Kind), "the peer sent %d bytes of an incomplete exchange (%s) and fell silent without hanging up; two simulated minutes later the %s side is still waiting for it", len(in.Bytes), in.Kind, role)
			}
			t.Stop()
			a.Close()
			continue
		}
		if !closed {
			// nothing more will come: the scripted peer half-closes by closing
			closed = true
			time.Sleep(200 * time.Millisecond)
			synctest.Wait()
			select {
			case result = <-done:
				got = true
				continue
			default:
			}
			a.Close()
			continue
		}
		if st.FinPending {
			n.DeliverFin(out)
			continue
		}
		// blocked with nothing deliverable: give timers a chance, then give up
		t := time.NewTimer(2 * time.Minute)
		select {
		case result = <-done:
			got = true
		case <-t.C:
			got = true
			result = res{err: fmt.Errorf("handshake goroutine never returned")}
			r.Count("handshake_never_returned")
		}
		t.Stop()
	}
	// let the scripted peer see everything the code under test wrote, then its close
	for i := 0; i < 10000; i++ {
		synctest.Wait()
		var back simrt.LinkState
		for _, ls := range n.LinkStates() {
			if ls.ID == a.In().ID {
				back = ls
			}
		}
		if back.Inflight > 0 {
			n.Deliver(a.In(), back.Inflight)
			continue
		}
		if back.FinPending {
			n.DeliverFin(a.In())
			continue
		}
		break
	}
	synctest.Wait()
	if !closed {
		a.Close()
	}
	synctest.Wait()
	o := c06outcome{Established: result.est, NextLayer: result.next, PeerSaw: append([]byte{}, peerSaw...)}
	if result.err != nil {
		o.Err = result.err.Error()
	}
	return o
}

func scenarioC06(r *Run) {
	c := r.Ch
	role := []string{"server", "client"}[c.Pick(2, "role")]
	var in c06input
	if role == "server" {
		in = genServerRoleInput(c)
	} else {
		in = genClientRoleInput(c)
	}
	secure := c.Chance(1, 2, "underlying-secure")
	r.Info["role"] = role
	r.Info["class"] = in.Class
	r.Info["kind"] = in.Kind
	r.Info["input"] = truncate(fmt.Sprintf("%q", in.Bytes), 400)
	r.Count("class/" + role + "/" + in.Class)
	// distinctness: the input itself (role, kind, content) - two runs with the same bytes are the same case
	r.AddShape(role)
	r.AddShape(in.Kind)
	r.AddShape(fmt.Sprintf("%x", prfKey(uint64(len(in.Bytes)), string(in.Bytes), 0, 0)))
	segNames := []string{"coalesced", "byte-at-a-time", "random-cuts", "cuts-near-line-ends"}
	// "The outcome depends only on the bytes exchanged": in one server-role run of three another connection
	// is served first by the same process - a valid peer, against a server that has a certificate and
	// therefore offers StartTLS - before the connection under judgement.
	primed := false
	if role == "server" && c.Chance(1, 3, "earlier-connection") {
		primed = true
		tail := []byte{0x55}
		prime := c06input{Class: "VALID", Kind: "valid", SrvCert: true, Tail: tail,
			Bytes: []byte("X-SOCKETACE / HTTP/1.1\r\nAccepts-Protocol-Version: " + c06Version + "\r\n\r\nGET / HTTP/1.1\r\nConnection: upgrade\r\nUpgrade: socketace/" + c06Version + "\r\n\r\n")}
		po := runHandshake(r, role, prime, 0, false)
		if r.Failed() {
			return
		}
		if !po.Established {
			r.FailSig("valid-peer-refused", "role=server kind=earlier-connection", "the earlier connection (a well-formed peer, server with a certificate) was not accepted: err=%s wrote=%q", po.Err, statusLines(po.PeerSaw))
			return
		}
		r.Count("runs_with_an_earlier_connection")
	}
	r.Info["earlier_connection"] = primed
	var outs []c06outcome
	for seg := 0; seg < 4; seg++ {
		o := runHandshake(r, role, in, seg, secure)
		r.Logf("role=%s kind=%s seg=%s -> established=%v err=%q wrote=%q", role, in.Kind, segNames[seg], o.Established, truncate(o.Err, 120), statusLines(o.PeerSaw))
		outs = append(outs, o)
		if r.Failed() {
			return
		}
	}
	sig := fmt.Sprintf("role=%s kind=%s", role, in.Kind)
	// (2) metamorphic: segmentation must not matter
	for seg := 1; seg < 4; seg++ {
		if outs[seg].key() != outs[0].key() {
			r.FailSig("segmentation-dependent", sig, "the same %d bytes (%s, %s role) give different outcomes when %s vs %s: %s  versus  %s", len(in.Bytes), in.Kind, role, segNames[0], segNames[seg], truncate(outs[0].key(), 300), truncate(outs[seg].key(), 300))
			return
		}
	}
	o := outs[0]
	// (1) acceptance model
	switch in.Class {
	case "VALID":
		if !o.Established {
			r.FailSig("valid-peer-refused", sig, "a well-formed, compatible %s-side exchange was not accepted: err=%s wrote=%q input=%q", role, o.Err, statusLines(o.PeerSaw), truncate(string(in.Bytes), 300))
			return
		}
		if !bytes.Equal(o.NextLayer, in.Tail) {
			r.FailSig("bytes-after-handshake-altered", sig, "the %d bytes following the handshake reached the next layer as %q, expected %q", len(in.Tail), o.NextLayer, in.Tail)
			return
		}
	case "INVALID":
		if o.Established {
			r.FailSig("invalid-peer-admitted", sig, "a session was established on a %s input (%s role): %q", in.Kind, role, truncate(string(in.Bytes), 300))
			return
		}
	case "AMBIGUOUS":
		if o.Established && role == "server" && !independentAccepts(in.Bytes) {
			r.FailSig("invalid-peer-admitted", sig, "a session was established on input an independent parser rejects (%s): %q", in.Kind, truncate(string(in.Bytes), 300))
			return
		}
	}
	if role == "server" && (!in.SrvCert || secure) {
		// a server without a certificate, or on a carrier that is already protected, does not offer StartTLS -
		// whatever it offered on other connections
		for _, line := range strings.Split(string(o.PeerSaw), "\r\n") {
			if i := strings.Index(line, ":"); i > 0 && strings.EqualFold(strings.TrimSpace(line[:i]), "Capabilities") && strings.Contains(strings.ToLower(line[i+1:]), "starttls") {
				r.FailSig("history-dependent", sig, "a server that cannot upgrade this connection (certificate=%v, carrier already protected=%v) announces %q (an earlier connection was served: %v)", in.SrvCert, secure, line, primed)
				return
			}
		}
	}
	if role == "server" && !o.Established {
		// any other input is answered with an error status or a close; never a success status for the step that failed
		if strings.Contains(statusLines(o.PeerSaw), "101 ") {
			r.FailSig("success-status-without-session", sig, "the server wrote a 101 status but did not establish a session: %q", statusLines(o.PeerSaw))
			return
		}
	}
	r.NonTriv = true
	if o.Established {
		r.Count("established")
	} else {
		r.Count("refused")
	}
}

// independentAccepts is a small, lenient reference parser for the server role:
// two header blocks; first: method X-SOCKETACE and a version list containing the
// supported version; second: GET, Connection: upgrade (any case), Upgrade: socketace/<version>.
func independentAccepts(b []byte) bool {
	s := strings.Replace(string(b), "\r\n", "\n", -1)
	blocks := strings.SplitN(s, "\n\n", 3)
	if len(blocks) < 2 {
		return false
	}
	parse := func(block string) (method string, hdr map[string]string) {
		lines := strings.Split(block, "\n")
		f := strings.Split(lines[0], " ")
		if len(f) < 3 {
			return "", nil
		}
		hdr = map[string]string{}
		last := ""
		for _, l := range lines[1:] {
			if (strings.HasPrefix(l, " ") || strings.HasPrefix(l, "\t")) && last != "" {
				// (an empty first line of a folded value contributes nothing, not a leading blank)
				hdr[last] = strings.TrimSpace(hdr[last] + " " + strings.TrimSpace(l))
				continue
			}
			i := strings.Index(l, ":")
			if i <= 0 {
				return "", nil
			}
			last = strings.ToLower(strings.TrimSpace(l[:i]))
			hdr[last] = strings.TrimSpace(l[i+1:])
		}
		return f[0], hdr
	}
	m1, h1 := parse(blocks[0])
	m2, h2 := parse(blocks[1])
	if h1 == nil || h2 == nil || m1 != "X-SOCKETACE" || m2 != "GET" {
		return false
	}
	ok := false
	for _, v := range strings.Split(h1["accepts-protocol-version"], ",") {
		if strings.TrimSpace(v) == c06Version {
			ok = true
		}
	}
	return ok && strings.ToLower(h2["connection"]) == "upgrade" && h2["upgrade"] == "socketace/"+c06Version
}
