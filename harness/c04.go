package verif

import (
	"bytes"
	"fmt"
	clientCmd "github.com/bokysan/socketace/v2/internal/commands/client"
	"io"
	"net"
	"os"
	"strings"
	"syscall"
	"time"

	"github.com/bokysan/socketace/v2/internal/client/upstream"
	"github.com/bokysan/socketace/v2/internal/simrt"
	"github.com/bokysan/socketace/v2/internal/socketace"
	multistream "github.com/multiformats/go-multistream"
	"github.com/xtaci/smux"
)

func init() { Scenarios["C04"] = scenarioC04 }

type c04cell struct {
	Part      string // matrix, scripted-server, plaintext-client
	Carrier   string
	Cert      bool
	Secure    bool // -s
	Insecure  bool // -k
	Deviation string
}

func (c c04cell) String() string {
	switch c.Part {
	case "matrix":
		return fmt.Sprintf("matrix|%s|cert=%v|s=%v|k=%v", c.Carrier, c.Cert, c.Secure, c.Insecure)
	case "scripted-server":
		return fmt.Sprintf("scripted-server|%s|s=%v|%s", c.Carrier, c.Secure, c.Deviation)
	}
	return fmt.Sprintf("plaintext-client|%s|%s", c.Carrier, c.Deviation)
}

var c04Deviations = []string{
	"capability-omitted", "capability-altered", "capability-duplicated", "upgrade-101-then-plaintext-mux",
	"upgrade-101-then-garbage", "upgrade-200", "upgrade-403", "upgrade-503", "announce-500", "tls-alert",
	"upgrade-101-no-headers", "honest-plaintext",
}

var c04ClientDeviations = []string{"plaintext-announce", "plaintext-http-upgrade", "garbage", "silent-then-plaintext"}

func C04Cells() []c04cell {
	var out []c04cell
	for _, carrier := range []string{"tcp", "unix", "tcp+tls", "unix+tls", "ws", "wss", "stdio", "stdio+tls", "udp", "udp+pass"} {
		for _, cert := range []bool{false, true} {
			if CarrierEncrypted(carrier) && !cert {
				continue
			}
			for _, s := range []bool{false, true} {
				for _, k := range []bool{false, true} {
					out = append(out, c04cell{Part: "matrix", Carrier: carrier, Cert: cert, Secure: s, Insecure: k})
				}
			}
		}
	}
	for _, carrier := range []string{"tcp", "unix"} {
		for _, s := range []bool{true, false} {
			for _, d := range c04Deviations {
				out = append(out, c04cell{Part: "scripted-server", Carrier: carrier, Secure: s, Deviation: d})
			}
		}
	}
	for _, carrier := range []string{"tcp+tls", "wss"} {
		for _, d := range c04ClientDeviations {
			out = append(out, c04cell{Part: "plaintext-client", Carrier: carrier, Deviation: d})
		}
	}
	return out
}

// windows returns a few 24-byte windows of a stream, used as sentinels on the wire.
func windows(key uint64, total int64) [][]byte {
	var out [][]byte
	for _, off := range []int64{0, 8, 40, 100, 300, 700} {
		if off+24 <= total {
			w := make([]byte, 24)
			prfFill(key, off, w)
			out = append(out, w)
		}
	}
	return out
}

func wireBytes(r *Run, w *World) []byte {
	var all []byte
	port := fmt.Sprintf(":%d", CarrierPort(w.Cfg.Carrier))
	for _, l := range r.Net.Links() {
		name := l.Name
		if strings.Contains(name, port+" ") || strings.Contains(name, fmt.Sprintf("sa-%d.sock", CarrierPort(w.Cfg.Carrier))) || strings.Contains(name, "pipe|stdio-carrier") {
			all = append(all, r.Net.TapBytes(l)...)
			all = append(all, 0, 0, 0, 0)
		}
	}
	all = append(all, r.Net.DgramTapBytes()...)
	return all
}

func clientSecurity(w *World) (found bool, secure bool, tech string) {
	return clientSecurityOf(w.Client)
}

func clientSecurityOf(cmd *clientCmd.Command) (found bool, secure bool, tech string) {
	if cmd == nil {
		return
	}
	var c net.Conn = cmd.Upstream.SimCurrent()
	if c == nil {
		return
	}
	for i := 0; i < 10 && c != nil; i++ {
		if cc, ok := c.(*socketace.ClientConnection); ok {
			return true, cc.Secure(), cc.SecurityTech()
		}
		switch v := c.(type) {
		case *upstream.Socket:
			c = v.Connection
		case *upstream.Http:
			c = v.Connection
		case *upstream.Packet:
			c = v.Connection
		case *upstream.InputOutput:
			c = v.Connection
		case *upstream.Dns:
			c = v.Connection
		default:
			if u, ok := c.(interface{ Unwrap() net.Conn }); ok {
				c = u.Unwrap()
			} else {
				c = nil
			}
		}
	}
	return
}

func scenarioC04(r *Run) {
	PrfForceRaw = true
	defer func() { PrfForceRaw = false }()
	cells := C04Cells()
	cell := cells[r.Idx%len(cells)]
	r.Count("cell/" + cell.String())
	r.Info["cell"] = cell.String()
	r.Info["cells_total"] = len(cells)
	r.AddShape(cell.String())
	r.Net.TapNew = true
	r.Net.TapDatagrams()
	r.hook.Capture = true
	switch cell.Part {
	case "matrix":
		c04matrix(r, cell)
	case "scripted-server":
		c04scriptedServer(r, cell)
	case "plaintext-client":
		c04plaintextClient(r, cell)
	}
}

func c04matrix(r *Run, cell c04cell) {
	c := r.Ch
	cfg := WorldCfg{Carrier: cell.Carrier, ClientSecure: cell.Secure, ClientInsecure: cell.Insecure, ClientCA: "good"}
	if cell.Cert {
		cfg.ServerCert = "good"
		// in half of these runs the server reads certificate and key from files whenever it needs them
		// (a read takes simulated time, during which other connections are served)
		cfg.ServerCertFiles = c.Chance(1, 2, "cert-files")
	}
	// A disk fault on the client (one run in five): the file with its CA certificates cannot be read - for good,
	// or for the first 1-3 reads. A client that cannot build its TLS configuration cannot ask for StartTLS; what
	// it must not do is settle for a plaintext session where protection is required or was on offer.
	if c.Chance(1, 5, "client-ca-file-unreadable") {
		cfg.ClientCAFile = true
		failing := 1 + c.Pick(4, "ca-read-failures")
		if failing == 4 {
			failing = 1 << 30
		}
		simrt.ReadFault = func(name string) error {
			if strings.Contains(name, "client-ca-") && failing > 0 {
				failing--
				r.Count("fault_file_read_error")
				return &os.PathError{Op: "open", Path: name, Err: syscall.EIO}
			}
			return nil
		}
		r.Info["client_ca_file_unreadable"] = true
	}
	cfg.Channels = []ChanCfg{{Name: "alpha", Target: "tcp://" + TargetIP + ":7001"}}
	lsn := LsnCfg{Channel: "alpha", Kind: "tcp", Addr: "127.0.0.1:6001"}
	cfg.Listeners = []LsnCfg{lsn}
	w, err := BuildWorld(r, cfg)
	if err != nil {
		r.Fail("world-setup", "could not build world: %v", err)
		return
	}
	// 0-2 further clients (each its own process-like client command) connect to the freshly started
	// server at the same time as the first one: what one client is offered must not depend on the others
	clients := []*clientCmd.Command{w.Client}
	nextra := 0
	if !strings.HasPrefix(cell.Carrier, "stdio") {
		nextra = c.Pick(3, "more-clients")
	}
	conns := []*LConn{{I: 0, TIdx: 0, Lsn: lsn, Mode: "active"}}
	for i := 1; i <= nextra; i++ {
		l := LsnCfg{Channel: "alpha", Kind: "tcp", Addr: fmt.Sprintf("127.0.0.1:%d", 6001+i)}
		cmd, err := w.NewClient([]LsnCfg{l})
		if err != nil {
			r.Fail("world-setup", "client %d: %v", i, err)
			return
		}
		clients = append(clients, cmd)
		conns = append(conns, &LConn{I: i, TIdx: 0, Lsn: l, Mode: "active"})
	}
	r.Info["clients"] = len(clients)
	for _, lc := range conns {
		lc.PlanA = Partition(c, 1024, "app-part")
		lc.PlanT = Partition(c, 1024, "tgt-part")
	}
	cs := NewConnSet(r, w, "app", conns)
	pol := &NetPolicy{ChunkBias: c.Pick(3, "chunk-bias")}
	if nextra > 0 {
		pol.Burst = 3
		r.YieldsOn("yield-seed")
		r.Count("concurrent_first_clients")
	}
	extra := func() []Ev { return append(cs.OpenEv(nil), cs.PeerEvents()...) }
	goal := func() bool {
		cs.Assign()
		if !cs.AllOpened() {
			return false
		}
		for _, lc := range conns {
			if cs.Complete(lc, false) {
				continue
			}
			_, _, eof, rerr, _, _ := lc.App.Snapshot()
			if !(eof || rerr != nil) {
				return false
			}
		}
		return true
	}
	out := r.Drive(pol, goal, extra, 90*time.Second, 10*time.Minute)
	r.YieldsOff()
	if out == Aborted {
		return
	}
	cs.Assign()
	wire := wireBytes(r, w)
	srvTLS := 0
	for _, l := range r.hook.lines {
		if strings.Contains(l, "[Server] Connection encrypted using TLS") {
			srvTLS++
		}
	}
	carrierEnc := CarrierEncrypted(cell.Carrier)
	mustBeProtected := cell.Secure || carrierEnc || cell.Cert // -s, encrypted carrier, or StartTLS on offer
	sig := "cell=" + cell.String()
	nEst, nTLSClients := 0, 0
	anyClear := false
	for i, lc := range conns {
		established := cs.Complete(lc, false)
		inClear := false
		tkey := uint64(0)
		if lc.Tp != nil {
			tkey = lc.Tp.TxKey
		}
		wins := windows(lc.App.TxKey, lc.WantA)
		if tkey != 0 {
			wins = append(wins, windows(tkey, lc.WantT)...)
		}
		for _, win := range wins {
			if bytes.Contains(wire, win) {
				inClear = true
			}
		}
		anyClear = anyClear || inClear
		found, cliSecure, cliTech := clientSecurityOf(clients[i])
		if established {
			nEst++
			if found && cliTech == "tls" {
				nTLSClients++
			}
		}
		r.Info[fmt.Sprintf("client%d", i)] = fmt.Sprintf("established=%v in_clear=%v found=%v secure=%v tech=%s", established, inClear, found, cliSecure, cliTech)
		who := fmt.Sprintf("cell %s, client %d of %d", cell, i, len(conns))
		switch {
		case established && mustBeProtected && inClear:
			r.FailSig("plaintext-on-protected-session", sig, "%s: the session was established and application payload appears in clear on the carrier (client reports secure=%v tech=%s)", who, cliSecure, cliTech)
			return
		case established && found && cliSecure && inClear:
			r.FailSig("plaintext-on-protected-session", sig, "%s: the client reports the session secure (%s) but application payload appears in clear on the carrier", who, cliTech)
			return
		case established && cell.Secure && found && !cliSecure:
			r.FailSig("insecure-session-accepted", sig, "%s: the client requires security but carries application data over a session it reports as not secure", who)
			return
		case established && cell.Cert && !carrierEnc && found && cliTech != "tls":
			r.FailSig("starttls-not-upgraded", sig, "%s: the server offers StartTLS on an unencrypted carrier and a session was established, but client tech=%s", who, cliTech)
			return
		case !established && lc.Tp != nil && cell.Secure && !cell.Cert && !carrierEnc:
			r.FailSig("insecure-session-accepted", sig, "%s: no session should exist, yet the target accepted a connection", who)
			return
		}
	}
	if !carrierEnc && nTLSClients != srvTLS && !(nTLSClients < srvTLS && nEst < len(conns)) {
		// (a client whose session failed after the server's side of the upgrade completed may leave the server one ahead)
		r.FailSig("ends-disagree", sig, "cell %s: %d client(s) report a StartTLS session, the server upgraded %d", cell, nTLSClients, srvTLS)
		return
	}
	if cell.Cert && !carrierEnc && nEst > 0 && srvTLS < nEst {
		r.FailSig("starttls-not-upgraded", sig, "cell %s: %d session(s) established on an endpoint offering StartTLS, the server upgraded only %d", cell, nEst, srvTLS)
		return
	}
	if !cell.Secure || cell.Cert || carrierEnc {
		// nothing more
	} else if len(w.Targets[0].Peers()) > 0 {
		r.FailSig("insecure-session-accepted", sig, "cell %s: no session should exist, yet the target accepted a connection", cell)
		return
	}
	// sanity of the observer: a legitimately plaintext session must show the payload on the wire
	if nEst > 0 && !mustBeProtected && !CarrierIsKCP(cell.Carrier) {
		if !anyClear {
			r.Fail("observer-blind", "cell %s: plaintext session but the wire observer did not see the payload (harness problem)", cell)
			return
		}
		r.Count("plaintext_session_observed")
	}
	if nEst > 0 {
		r.CountN("sessions_established", nEst)
	}
	if nEst < len(conns) {
		r.CountN("sessions_refused", len(conns)-nEst)
	}
	r.NonTriv = true

	// ---- the session is lost and the same clients connect again: what was required or negotiated for the
	// first session holds for every later one (the upstream objects of a client outlive its sessions)
	if nEst == 0 || strings.HasPrefix(cell.Carrier, "stdio") || !c.Chance(1, 2, "second-session") {
		return
	}
	for _, lc := range conns {
		lc.App.Do(Op{Kind: "close"})
	}
	r.RunFor(3 * time.Second)
	cut := 0
	for _, cn := range r.Net.Conns() {
		if cn.Tag == "dial" && strings.HasSuffix(cn.Key, fmt.Sprintf(":%d", CarrierPort(cell.Carrier))) || cn.Tag == "dial" && strings.Contains(cn.Key, fmt.Sprintf("sa-%d.sock", CarrierPort(cell.Carrier))) {
			r.Net.Reset(cn)
			cut++
		}
	}
	if cut > 0 {
		r.Count("fault_carrier_reset")
		r.RunFor(time.Duration(1+c.Pick(10, "wait-s")) * time.Second)
	} else {
		// datagram carriers: the server goes away and comes back; only the keep-alive can notice
		if err := w.RestartServer(); err != nil {
			r.Fail("harness", "server restart: %v", err)
			return
		}
		r.Count("fault_server_restart")
		r.RunFor(95 * time.Second)
	}
	srvTLS0 := 0
	for _, l := range r.hook.lines {
		if strings.Contains(l, "[Server] Connection encrypted using TLS") {
			srvTLS0++
		}
	}
	conns2 := make([]*LConn, len(conns))
	for i := range conns2 {
		conns2[i] = &LConn{I: len(conns) + i, TIdx: 0, Lsn: conns[i].Lsn, Mode: "active"}
		conns2[i].PlanA = Partition(c, 1024, "app-part")
		conns2[i].PlanT = Partition(c, 1024, "tgt-part")
	}
	cs2 := NewConnSet(r, w, "app", conns2)
	extra2 := func() []Ev { return append(cs2.OpenEv(nil), cs2.PeerEvents()...) }
	goal2 := func() bool {
		cs2.Assign()
		if !cs2.AllOpened() {
			return false
		}
		for _, lc := range conns2 {
			if cs2.Complete(lc, false) {
				continue
			}
			_, _, eof, rerr, _, _ := lc.App.Snapshot()
			if !(eof || rerr != nil) {
				return false
			}
		}
		return true
	}
	out = r.Drive(pol, goal2, extra2, 90*time.Second, 10*time.Minute)
	if out == Aborted {
		return
	}
	cs2.Assign()
	wire = wireBytes(r, w)
	srvTLS2 := -srvTLS0
	for _, l := range r.hook.lines {
		if strings.Contains(l, "[Server] Connection encrypted using TLS") {
			srvTLS2++
		}
	}
	sig += " second-session"
	nEst2 := 0
	for i, lc := range conns2 {
		established := cs2.Complete(lc, false)
		inClear := false
		wins := windows(lc.App.TxKey, lc.WantA)
		if lc.Tp != nil && lc.Tp.TxKey != 0 {
			wins = append(wins, windows(lc.Tp.TxKey, lc.WantT)...)
		}
		for _, win := range wins {
			if bytes.Contains(wire, win) {
				inClear = true
			}
		}
		found, cliSecure, cliTech := clientSecurityOf(clients[i])
		if established {
			nEst2++
		}
		r.Info[fmt.Sprintf("client%d_second", i)] = fmt.Sprintf("established=%v in_clear=%v found=%v secure=%v tech=%s", established, inClear, found, cliSecure, cliTech)
		who := fmt.Sprintf("cell %s, client %d of %d, second session after the first was lost", cell, i, len(conns))
		switch {
		case established && mustBeProtected && inClear:
			r.FailSig("plaintext-on-protected-session", sig, "%s: the session was established and application payload appears in clear on the carrier (client reports secure=%v tech=%s)", who, cliSecure, cliTech)
			return
		case established && found && cliSecure && inClear:
			r.FailSig("plaintext-on-protected-session", sig, "%s: the client reports the session secure (%s) but application payload appears in clear on the carrier", who, cliTech)
			return
		case established && cell.Secure && found && !cliSecure:
			r.FailSig("insecure-session-accepted", sig, "%s: the client requires security but carries application data over a session it reports as not secure", who)
			return
		case established && cell.Cert && !carrierEnc && found && cliTech != "tls":
			r.FailSig("starttls-not-upgraded", sig, "%s: the server offers StartTLS on an unencrypted carrier and a session was established, but client tech=%s", who, cliTech)
			return
		case !established && lc.Tp != nil && cell.Secure && !cell.Cert && !carrierEnc:
			r.FailSig("insecure-session-accepted", sig, "%s: no session should exist, yet the target accepted a connection", who)
			return
		}
	}
	if cell.Cert && !carrierEnc && nEst2 > 0 && srvTLS2 < nEst2 {
		r.FailSig("starttls-not-upgraded", sig, "cell %s: %d second session(s) established on an endpoint offering StartTLS, the server upgraded only %d", cell, nEst2, srvTLS2)
		return
	}
	if nEst2 > 0 {
		r.CountN("second_sessions_established", nEst2)
	}
}

// ---- part (b): real client against a scripted server that deviates at one step

func c04scriptedServer(r *Run, cell c04cell) {
	c := r.Ch
	port := CarrierPort(cell.Carrier)
	network, addr := "tcp", fmt.Sprintf("%s:%d", ServerIP, port)
	if cell.Carrier == "unix" {
		network, addr = "unix", fmt.Sprintf("sa-%d.sock", port)
	}
	r.Net.SourceIP = ServerIP
	ln, err := r.Net.Listen(network, addr)
	if err != nil {
		r.Fail("harness", "scripted server: %v", err)
		return
	}
	r.OnCleanup(func() { ln.Close() })
	var sinkGot bytes.Buffer
	streamsAccepted := 0
	askedTLS := false
	go func() {
		for {
			conn, err := ln.Accept()
			if err != nil {
				return
			}
			go scriptedServerConn(r, conn, cell.Deviation, &sinkGot, &streamsAccepted, &askedTLS)
		}
	}()
	cfg := WorldCfg{Carrier: cell.Carrier, NoServer: true, ClientSecure: cell.Secure, ClientInsecure: true}
	cfg.Channels = []ChanCfg{{Name: "alpha", Target: ""}}
	lsn := LsnCfg{Channel: "alpha", Kind: "tcp", Addr: "127.0.0.1:6001"}
	cfg.Listeners = []LsnCfg{lsn}
	w, err := BuildWorld(r, cfg)
	if err != nil {
		r.Fail("world-setup", "could not build world: %v", err)
		return
	}
	conn, err := w.DialApp(lsn)
	if err != nil {
		r.Fail("connect", "app: %v", err)
		return
	}
	key := AppKey(r.Seed, 0)
	app := NewPeer(r, "app0", "app", conn, key, nil)
	app.noVerify = true
	app.Script = Partition(c, 1024, "app-part")
	r.registerPeer(app)
	pol := &NetPolicy{ChunkBias: c.Pick(3, "chunk-bias")}
	extra := func() []Ev {
		if e, ok := app.NextEv(); ok {
			return []Ev{e}
		}
		return nil
	}
	goal := func() bool {
		s, _, eof, rerr, _, _ := app.Snapshot()
		return (eof || rerr != nil) || (s == 1024 && sinkGot.Len() >= 1024)
	}
	out := r.Drive(pol, goal, extra, 120*time.Second, 10*time.Minute)
	if out == Aborted {
		return
	}
	wire := wireBytes(r, w)
	inClear := false
	for _, win := range windows(key, 1024) {
		if bytes.Contains(wire, win) || bytes.Contains(sinkGot.Bytes(), win) {
			inClear = true
		}
	}
	sig := "cell=" + cell.String()
	r.Info["payload_in_clear"] = inClear
	r.Info["mux_streams_accepted_by_scripted_server"] = streamsAccepted
	if cell.Secure {
		if inClear || streamsAccepted > 0 {
			r.FailSig("plaintext-despite-require-security", sig, "the client was started with -s; the scripted server deviated by %q; the client nevertheless opened %d logical stream(s) and application payload in clear=%v", cell.Deviation, streamsAccepted, inClear)
			return
		}
		_, _, eof, rerr, _, _ := app.Snapshot()
		if !eof && rerr == nil {
			r.FailSig("no-refusal", sig, "%s: the client was started with -s and the server deviated by %q; the local application was neither served nor disconnected", out, cell.Deviation)
			return
		}
		r.Count("deviation_refused")
	} else {
		// Without -s a plaintext session is acceptable only if no upgrade was agreed. Once the client has
		// asked for the StartTLS upgrade that was on offer, the session is upgraded or it does not exist:
		// no application byte may then travel in clear, whatever the server answers.
		r.Info["client_asked_for_starttls"] = askedTLS
		if askedTLS && (inClear || streamsAccepted > 0) {
			r.FailSig("plaintext-after-starttls-was-requested", sig, "StartTLS was on offer and the client asked for it; the scripted server deviated by %q; the client nevertheless opened %d logical stream(s) on the plaintext carrier, application payload in clear=%v", cell.Deviation, streamsAccepted, inClear)
			return
		}
		if askedTLS {
			r.Count("starttls_requested_and_not_downgraded")
		}
		// control group: without -s a server that honestly stays plaintext is acceptable, and the observer must see the data
		if cell.Deviation == "honest-plaintext" || cell.Deviation == "capability-omitted" {
			if !inClear {
				r.Fail("observer-blind", "control cell %s: plaintext session expected to carry the payload in clear (harness problem): streams=%d", cell, streamsAccepted)
				return
			}
			r.Count("plaintext_session_observed")
		}
	}
	r.NonTriv = true
}

func readBlock(conn net.Conn) string {
	var b []byte
	buf := make([]byte, 1)
	for !bytes.HasSuffix(b, []byte("\r\n\r\n")) && len(b) < 8192 {
		if _, err := conn.Read(buf); err != nil {
			break
		}
		b = append(b, buf[0])
	}
	return string(b)
}

func scriptedServerConn(r *Run, conn net.Conn, dev string, sink *bytes.Buffer, streams *int, askedTLS *bool) {
	defer func() { recover() }()
	ok200 := "HTTP/1.1 200 OK\r\nServer: socketace/scripted\r\nProtocol-Version: v2.0.0\r\n"
	ok101 := "HTTP/1.1 101 Switching Protocols\r\nConnection: upgrade\r\nUpgrade: socketace/v2.0.0\r\nProtocol-Version: v2.0.0\r\nServer: socketace/scripted\r\n\r\n"
	readBlock(conn)
	switch dev {
	case "announce-500":
		conn.Write([]byte("HTTP/1.1 500 Internal Server Error\r\nServer: socketace/scripted\r\n\r\n"))
		return
	case "capability-omitted", "honest-plaintext":
		conn.Write([]byte(ok200 + "\r\n"))
	case "capability-altered":
		conn.Write([]byte(ok200 + "Capabilities: StartSSL, TLSStart\r\n\r\n"))
	case "capability-duplicated":
		conn.Write([]byte(ok200 + "Capabilities: StartTLS\r\nCapabilities: none\r\n\r\n"))
	default:
		conn.Write([]byte(ok200 + "Capabilities: StartTLS\r\n\r\n"))
	}
	if up := readBlock(conn); strings.Contains(strings.ToLower(up), "security: starttls") {
		*askedTLS = true // the client asked for the StartTLS upgrade (it was on offer)
	}
	mux := false
	switch dev {
	case "upgrade-200":
		conn.Write([]byte("HTTP/1.1 200 OK\r\nServer: socketace/scripted\r\n\r\n"))
		mux = true
	case "upgrade-403":
		conn.Write([]byte("HTTP/1.1 403 Forbidden\r\n\r\n"))
		return
	case "upgrade-503":
		conn.Write([]byte("HTTP/1.1 503 Service Unavailable\r\nMessage: no tls\r\n\r\n"))
		return
	case "upgrade-101-no-headers":
		conn.Write([]byte("HTTP/1.1 101 Switching Protocols\r\n\r\n"))
		mux = true
	case "upgrade-101-then-garbage":
		conn.Write([]byte(ok101))
		g := make([]byte, 200)
		prfFill(0xdead, 0, g)
		conn.Write(g)
		io.Copy(io.Discard, conn)
		return
	case "tls-alert":
		conn.Write([]byte(ok101))
		conn.Write([]byte{0x15, 0x03, 0x03, 0x00, 0x02, 0x02, 0x28})
		io.Copy(io.Discard, conn)
		return
	default:
		conn.Write([]byte(ok101))
		mux = true
	}
	if !mux {
		return
	}
	// speak the multiplexer and channel selection in clear, as if no upgrade had been agreed:
	// whatever application data the client sends now travels unprotected
	cfg := smux.DefaultConfig()
	cfg.MaxFrameSize = 32768 - 128
	sess, err := smux.Server(conn, cfg)
	if err != nil {
		return
	}
	for {
		st, err := sess.AcceptStream()
		if err != nil {
			return
		}
		*streams++
		go func() {
			m := multistream.NewMultistreamMuxer()
			m.AddHandler("/alpha", func(proto string, rwc io.ReadWriteCloser) error {
				buf := make([]byte, 4096)
				for {
					k, err := rwc.Read(buf)
					sink.Write(buf[:k])
					if err != nil {
						return nil
					}
				}
			})
			m.Handle(st)
		}()
	}
}

// ---- part (c): real TLS endpoint against a scripted client that speaks plaintext

func c04plaintextClient(r *Run, cell c04cell) {
	cfg := WorldCfg{Carrier: cell.Carrier, ServerCert: "good", NoClient: true}
	cfg.Channels = []ChanCfg{{Name: "alpha", Target: "tcp://" + TargetIP + ":7001"}}
	w, err := BuildWorld(r, cfg)
	if err != nil {
		r.Fail("world-setup", "could not build world: %v", err)
		return
	}
	r.Net.SourceIP = ClientIP
	conn, err := r.Net.Dial("tcp", fmt.Sprintf("%s:%d", ServerIP, CarrierPort(cell.Carrier)), 0)
	if err != nil {
		r.Fail("harness", "dial: %v", err)
		return
	}
	var reply bytes.Buffer
	done := make(chan struct{})
	go func() {
		defer close(done)
		buf := make([]byte, 4096)
		for {
			k, err := conn.Read(buf)
			reply.Write(buf[:k])
			if err != nil {
				return
			}
		}
	}()
	go func() {
		switch cell.Deviation {
		case "plaintext-announce":
			conn.Write([]byte(announce + upgradeReq))
		case "plaintext-http-upgrade":
			conn.Write([]byte("GET /ws/all HTTP/1.1\r\nHost: server.test\r\nUpgrade: websocket\r\nConnection: Upgrade\r\nSec-WebSocket-Key: dGhlIHNhbXBsZSBub25jZQ==\r\nSec-WebSocket-Version: 13\r\n\r\n"))
			time.Sleep(time.Second)
			conn.Write([]byte(announce))
		case "garbage":
			g := make([]byte, 300)
			prfFill(0xfeed, 0, g)
			conn.Write(g)
		case "silent-then-plaintext":
			time.Sleep(20 * time.Second)
			conn.Write([]byte(announce + upgradeReq))
		}
		// then try to open a multiplexed stream in clear
		time.Sleep(2 * time.Second)
		conn.Write([]byte{1, 0, 0, 0, 1, 0, 0, 0}) // smux v1 SYN stream 1
		conn.Write([]byte("\x13/multistream/1.0.0\n\x07/alpha\n"))
	}()
	pol := &NetPolicy{ChunkBias: r.Ch.Pick(3, "chunk-bias")}
	r.Drive(pol, func() bool { return false }, nil, 60*time.Second, 3*time.Minute)
	sig := "cell=" + cell.String()
	if len(w.Targets[0].Peers()) > 0 {
		r.FailSig("plaintext-session-on-tls-endpoint", sig, "a %s endpoint completed a session with a client speaking plaintext (%s): the target accepted a connection", cell.Carrier, cell.Deviation)
		return
	}
	if strings.Contains(reply.String(), "101 Switching Protocols") && strings.Contains(reply.String(), "socketace") {
		r.FailSig("plaintext-session-on-tls-endpoint", sig, "a %s endpoint answered a plaintext handshake with 101", cell.Carrier)
		return
	}
	r.Count("plaintext_client_refused")
	r.NonTriv = true
	_ = simrt.DialOK
}
