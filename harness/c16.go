package verif

import (
	"fmt"
	"net"
	"strings"
	"time"
)

func init() { Scenarios["C16"] = scenarioC16 }

type c16entry struct {
	Kind   string // tcp, unix, tcp+tls, ws, udp
	Health string // healthy, refused, blackhole, silent, status-error, insecure
	Port   int
	URL    string
	Key    string // simnet key of its address
	ByName bool   // the upstream URL names the host; the certificate is valid for that name only
}

func c16healths(kind string) []string {
	switch kind {
	case "udp", "udp+pass":
		return []string{"healthy", "silent", "insecure"}
	case "unix":
		return []string{"healthy", "refused", "silent", "status-error", "insecure", "stalls-in-starttls", "silent-after-announce"}
	case "tcp+tls":
		return []string{"healthy", "refused", "blackhole", "silent"}
	}
	if kind == "ws" {
		return []string{"healthy", "refused", "blackhole", "silent", "status-error", "insecure"}
	}
	return []string{"healthy", "refused", "blackhole", "silent", "status-error", "insecure", "stalls-in-starttls", "silent-after-announce"}
}

// scripted failing endpoints
func startScripted(r *Run, e *c16entry) {
	network, addr := "tcp", fmt.Sprintf("%s:%d", ServerIP, e.Port)
	if e.Kind == "unix" {
		network, addr = "unix", fmt.Sprintf("sa-%d.sock", e.Port)
	}
	if isUDPKind(e.Kind) {
		return // nobody is bound: datagrams vanish
	}
	r.Net.SourceIP = ServerIP
	ln, err := r.Net.Listen(network, addr)
	r.Net.SourceIP = ClientIP
	if err != nil {
		r.Fail("harness", "scripted endpoint: %v", err)
		return
	}
	r.OnCleanup(func() { ln.Close() })
	go func() {
		for {
			c, err := ln.Accept()
			if err != nil {
				return
			}
			go func(c net.Conn) {
				buf := make([]byte, 4096)
				switch e.Health {
				case "silent":
					for {
						if _, err := c.Read(buf); err != nil {
							return
						}
					}
				case "silent-after-announce":
					// answers the first request properly, then never answers the upgrade
					readBlock(c)
					c.Write([]byte("HTTP/1.1 200 OK\r\nServer: socketace/scripted\r\nProtocol-Version: v2.0.0\r\n\r\n"))
					for {
						if _, err := c.Read(buf); err != nil {
							return
						}
					}
				case "stalls-in-starttls":
					// offers StartTLS, accepts the upgrade, then goes silent inside the TLS handshake
					readBlock(c)
					c.Write([]byte("HTTP/1.1 200 OK\r\nServer: socketace/scripted\r\nCapabilities: StartTLS\r\nProtocol-Version: v2.0.0\r\n\r\n"))
					readBlock(c)
					c.Write([]byte("HTTP/1.1 101 Switching Protocols\r\nConnection: upgrade\r\nUpgrade: socketace/v2.0.0\r\nProtocol-Version: v2.0.0\r\n\r\n"))
					for {
						if _, err := c.Read(buf); err != nil {
							return
						}
					}
				case "status-error":
					c.Read(buf)
					if e.Kind == "ws" {
						c.Write([]byte("HTTP/1.1 404 Not Found\r\nContent-Length: 0\r\n\r\n"))
					} else {
						c.Write([]byte("HTTP/1.1 400 Bad Request\r\nServer: scripted\r\nMessage: no\r\n\r\n"))
					}
					c.Close()
				}
			}(c)
		}
	}()
}

func scenarioC16(r *Run) {
	c := r.Ch
	secure := c.Chance(1, 3, "client-requires-security")
	ne := 1 + c.Pick(4, "entries")
	kinds := []string{"tcp", "tcp", "unix", "tcp+tls", "ws", "udp", "udp+pass"}
	entries := make([]*c16entry, ne)
	cfg := WorldCfg{Carrier: "tcp", ClientSecure: secure, ClientInsecure: true}
	// In one run of four the client verifies server certificates, the upstreams are named differently (some
	// by host name, some by IP literal) and each certificate is valid for its own entry's name only: whatever
	// the client learnt while talking to one entry must not be applied to another.
	verify := c.Chance(1, 4, "client-verifies")
	if verify {
		cfg.ClientInsecure = false
		cfg.ClientCA = "good"
		kinds = []string{"tcp", "tcp+tls", "tcp+tls", "ws", "udp"}
		r.Count("client_verifies_certificates")
	}
	r.Info["client_verifies"] = verify
	firstOK := -1
	for i := range entries {
		e := &c16entry{Kind: kinds[c.Pick(len(kinds), "entry-kind")], Port: 9100 + 10*i}
		hs := c16healths(e.Kind)
		e.Health = hs[c.Pick(len(hs), "entry-health")]
		if verify && c.Chance(1, 2, "entry-healthy") {
			e.Health = "healthy"
		}
		if e.Health == "insecure" && !secure {
			e.Health = "healthy"
		}
		// render
		sub := WorldCfg{ServerCert: ""}
		if e.Health == "healthy" && (secure || e.Kind == "tcp+tls" || c.Chance(1, 2, "starttls")) {
			sub.ServerCert = "good"
		}
		if e.Kind == "tcp+tls" {
			sub.ServerCert = "good"
		}
		if verify && sub.ServerCert != "" {
			if c.Chance(1, 2, "entry-by-name") {
				sub.UseHostName = true
				sub.ServerCert = "good-name"
				e.ByName = true
			} else {
				sub.ServerCert = "good-ip"
			}
		}
		entry, url, _ := serverEntry(&sub, e.Kind, e.Port)
		e.URL = url
		switch e.Kind {
		case "unix":
			e.Key = fmt.Sprintf("unix|sa-%d.sock", e.Port)
		case "udp", "udp+pass":
			e.Key = fmt.Sprintf("udp|%s:%d", ServerIP, e.Port)
		default:
			e.Key = fmt.Sprintf("tcp|%s:%d", ServerIP, e.Port)
		}
		if e.Health == "healthy" || e.Health == "insecure" {
			cfg.ServerEntries = append(cfg.ServerEntries, entry)
		}
		if e.Health == "healthy" && firstOK < 0 {
			firstOK = i
		}
		cfg.Upstreams = append(cfg.Upstreams, url)
		entries[i] = e
	}
	if len(cfg.ServerEntries) == 0 {
		cfg.NoServer = true
	}
	cfg.Channels = []ChanCfg{{Name: "alpha", Target: "tcp://" + TargetIP + ":7001"}}
	forward := []string{"absent", "absent", "reachable", "refused"}[c.Pick(4, "forward")]
	lsn := LsnCfg{Channel: "alpha", Kind: "tcp", Addr: "127.0.0.1:6001"}
	switch forward {
	case "reachable":
		lsn.Forward = "tcp://" + TargetIP + ":7009"
	case "refused":
		lsn.Forward = "tcp://" + TargetIP + ":7010"
	}
	cfg.Listeners = []LsnCfg{lsn}
	var desc []string
	for _, e := range entries {
		d := e.Kind + ":" + e.Health
		if verify && e.ByName {
			d += ":by-name"
		}
		desc = append(desc, d)
	}
	r.Info["upstreams"] = desc
	r.Info["client_requires_security"] = secure
	r.Info["forward"] = forward
	for _, e := range entries {
		if e.Health == "blackhole" {
			r.Net.SetDialFate("tcp", fmt.Sprintf("%s:%d", ServerIP, e.Port), 2)
		}
	}
	w, err := BuildWorld(r, cfg)
	if err != nil {
		r.Fail("world-setup", "could not build world: %v", err)
		return
	}
	for _, e := range entries {
		if e.Health == "silent" || e.Health == "status-error" || e.Health == "stalls-in-starttls" || e.Health == "silent-after-announce" {
			startScripted(r, e)
		}
	}
	// the forward target is one more recording target (index 1 in w.Targets)
	var fwd *Target
	if forward == "reachable" {
		fwd, err = StartTarget(r, 9, "F", "tcp", TargetIP+":7009")
		if err != nil {
			r.Fail("harness", "forward target: %v", err)
			return
		}
		w.Targets = append(w.Targets, fwd)
	}
	expectTarget := -1 // index into w.Targets; -1: nobody
	switch {
	case forward == "reachable":
		expectTarget = 1
	case firstOK >= 0:
		expectTarget = 0
	}
	// time allowance: each failing entry tried before the first healthy one
	allow := 60 * time.Second
	unbounded := ""
	if forward != "reachable" {
		for i, e := range entries {
			if firstOK >= 0 && i >= firstOK {
				break
			}
			switch e.Health {
			case "blackhole":
				allow += 130 * time.Second
			case "silent", "stalls-in-starttls", "silent-after-announce":
				allow += 120 * time.Second
				unbounded = "silent"
			default:
				allow += 5 * time.Second
			}
		}
	}
	if firstOK < 0 && forward != "reachable" {
		// nothing can be settled on: every local connection scans the whole list again
		allow = time.Duration(4) * allow
	}
	r.Info["first_healthy"] = firstOK
	r.Info["allowance_s"] = allow.Seconds()

	k := 1 + c.Pick(3, "concurrent")
	mk := func(base, count int) []*LConn {
		conns := make([]*LConn, count)
		for i := range conns {
			lc := &LConn{I: base + i, TIdx: 0, Lsn: lsn, Mode: "active"}
			if expectTarget == 1 {
				lc.TIdx = 1
			}
			lc.PlanA = Partition(c, 8+c.Pick(1500, "app-bytes"), "app-part")
			lc.PlanT = Partition(c, 1+c.Pick(1500, "tgt-bytes"), "tgt-part")
			conns[i] = lc
		}
		return conns
	}
	conns := mk(0, k)
	cs := NewConnSet(r, w, "app", conns)
	cs.Cross = true
	cs.KeySpan = 16
	pol := &NetPolicy{ChunkBias: c.Pick(2, "chunk-bias")}
	extra := func() []Ev { return append(cs.OpenEv(nil), cs.PeerEvents()...) }
	settled := func(cs *ConnSet, conns []*LConn, expectTarget int) func() bool {
		return func() bool {
			cs.Assign()
			if !cs.AllOpened() {
				return false
			}
			for _, lc := range conns {
				if expectTarget >= 0 {
					if !cs.Complete(lc, false) {
						return false
					}
				} else {
					_, _, eof, rerr, _, _ := lc.App.Snapshot()
					if !eof && rerr == nil {
						return false
					}
				}
			}
			return true
		}
	}
	// in one run of three the applications connect at the same instant and every lock operation of the
	// client is a seeded scheduling point: "all concurrent logical connections share a single session"
	// must hold when they all find no session at once
	together := c.Chance(1, 3, "connect-together")
	if together {
		cs.Together = true
		r.YieldsOn("yield-seed")
		r.Count("connections_opened_together")
	}
	t0 := r.SimElapsed()
	out := r.Drive(pol, settled(cs, conns, expectTarget), extra, allow+30*time.Second, allow+10*time.Minute)
	r.YieldsOff()
	if out == Aborted {
		return
	}
	took := r.SimElapsed() - t0
	sig := fmt.Sprintf("before_first_healthy=%s forward=%s", failingBefore(entries, firstOK), forward)
	dials := func(e *c16entry) int {
		cnt := 0
		if isUDPKind(e.Kind) {
			for _, s := range r.Net.Socks() {
				if s.Key() == e.Key && s.Recv > 0 {
					cnt = 1
				}
			}
			return cnt
		}
		for _, cn := range r.Net.Conns() {
			if cn.Tag == "dial" && cn.Key == e.Key {
				cnt++
			}
		}
		return cnt
	}
	if out != GoalMet {
		if unbounded != "" {
			sig += " hang=handshake-with-silent-peer"
		}
		r.FailSig("not-settled", sig, "%s after %v: upstreams %v (client -s=%v, forward %s): the local connections were not served/refused within the allowance of %v: %v", out, took, desc, secure, forward, allow, cs.Describe())
		return
	}
	if took > allow {
		r.FailSig("slow-failover", sig, "settling took %v, more than the allowance of %v for upstreams %v", took, allow, desc)
		return
	}
	// which endpoint got the session
	for i, lc := range conns {
		if expectTarget < 0 {
			if lc.Tp != nil {
				r.FailSig("wrong-endpoint", sig, "connection %d reached target %s although no upstream is usable (%v, -s=%v)", i, w.Targets[lc.TpTarget].Name, desc, secure)
				return
			}
			continue
		}
		if lc.Tp == nil || lc.TpTarget != expectTarget {
			r.FailSig("wrong-endpoint", sig, "connection %d: expected target %s, got %v", i, w.Targets[expectTarget].Name, lc.Tp.nameOr())
			return
		}
	}
	if forward == "reachable" {
		for _, e := range entries {
			if dials(e) > 0 {
				r.FailSig("forward-not-first", sig, "the forward address was reachable but upstream %s:%s was contacted", e.Kind, e.Health)
				return
			}
		}
		r.Count("forward_direct")
		r.NonTriv = true
		// "direct first" holds for every local connection, not only for the first ones a listener serves: in
		// half of these runs more connections are made 6-120 s later, with the forward address still reachable
		if !c.Chance(1, 2, "later-direct-connections") {
			return
		}
		for _, lc := range conns {
			lc.App.Do(Op{Kind: "close"})
		}
		r.RunFor(time.Duration(6+c.Pick(115, "later-direct-s")) * time.Second)
		connsL := mk(k, 1+c.Pick(2, "later-direct-n"))
		csL := NewConnSet(r, w, "app", connsL)
		csL.Cross = true
		csL.KeySpan = 16
		extraL := func() []Ev { return append(csL.OpenEv(nil), csL.PeerEvents()...) }
		out = r.Drive(pol, settled(csL, connsL, expectTarget), extraL, allow+30*time.Second, allow+10*time.Minute)
		if out == Aborted {
			return
		}
		for i, lc := range connsL {
			if !csL.Complete(lc, false) || lc.Tp == nil || lc.TpTarget != expectTarget {
				r.FailSig("forward-not-first", sig+" later", "%s: a while after the first direct connections, local connection %d was not connected to the forward address although it is reachable: %v", out, i, csL.Describe())
				return
			}
		}
		for _, e := range entries {
			if dials(e) > 0 {
				r.FailSig("forward-not-first", sig+" later", "the forward address was reachable but upstream %s:%s was contacted for a later connection", e.Kind, e.Health)
				return
			}
		}
		r.Count("forward_direct_later")
		return
	}
	if firstOK >= 0 {
		for i, e := range entries {
			d := dials(e)
			if i == firstOK && d != 1 {
				r.FailSig("single-session", sig, "%d physical connections to the selected upstream %s for %d concurrent logical connections (expected exactly 1)", d, e.Kind, k)
				return
			}
			if i > firstOK && d > 0 {
				r.FailSig("order", sig, "upstream #%d (%s:%s) was contacted although #%d (%s) is healthy and listed first", i, e.Kind, e.Health, firstOK, entries[firstOK].Kind)
				return
			}
			if i < firstOK && e.Health == "insecure" {
				r.Count("insecure_upstream_skipped")
			}
		}
		r.Count("failover_settled")
	} else {
		r.Count("all_failing_refused")
		r.NonTriv = true
		return
	}
	r.NonTriv = true

	// ---- session loss, then new local connections
	loss := []string{"none", "carrier-reset", "silent-loss", "server-restart", "carrier-timeout"}[c.Pick(5, "session-loss")]
	sel := entries[firstOK]
	if isUDPKind(sel.Kind) && loss != "none" {
		loss = "server-restart"
	}
	r.Info["session_loss"] = loss
	if loss == "none" {
		return
	}
	// Either the first batch is closed before the loss (independent histories), or its connections are
	// still open when the session is lost ("at any time"): they die with it, and the next local
	// connection must all the same get a new session.
	if c.Chance(1, 2, "loss-with-open-connections") {
		r.Count("loss_with_open_connections")
		r.Info["loss_with_open_connections"] = true
	} else {
		for _, lc := range conns {
			lc.App.Do(Op{Kind: "close"})
		}
	}
	r.RunFor(5 * time.Second)
	before := dials(sel)
	switch loss {
	case "carrier-reset", "carrier-timeout":
		for _, cn := range r.Net.Conns() {
			if cn.Tag == "dial" && cn.Key == sel.Key {
				if loss == "carrier-timeout" {
					r.Net.TimeoutKill(cn)
					r.Count("fault_carrier_timeout")
				} else {
					r.Net.Reset(cn)
					r.Count("fault_carrier_reset")
				}
			}
		}
		r.RunFor(time.Duration(1+c.Pick(20, "wait-s")) * time.Second)
	case "silent-loss":
		for _, cn := range r.Net.Conns() {
			if cn.Tag == "dial" && cn.Key == sel.Key {
				r.Net.Blackhole(cn, true)
				r.Count("fault_partition")
			}
		}
		// the loss can only be noticed through the multiplexer keep-alive (30 s)
		r.RunFor(95 * time.Second)
	case "server-restart":
		if err := w.RestartServer(); err != nil {
			r.Fail("harness", "server restart: %v", err)
			return
		}
		r.Count("fault_server_restart")
		if isUDPKind(sel.Kind) {
			r.RunFor(95 * time.Second) // KCP has no reset: noticed by keep-alive only
		} else {
			r.RunFor(time.Duration(1+c.Pick(20, "wait-s")) * time.Second)
		}
	}
	// Health changes over time: in one history of three the upstream that carried the session is gone for
	// good after the loss (it refuses connections from now on), so the next local connection has to go down
	// the list again and settle on the next healthy entry - or be refused when there is none.
	now, allow2, expect2 := sel, allow, expectTarget
	if !isUDPKind(sel.Kind) && c.Chance(1, 3, "selected-upstream-gone") {
		r.Net.SetDialFate(map[bool]string{true: "unix", false: "tcp"}[sel.Kind == "unix"], strings.SplitN(sel.Key, "|", 2)[1], 1) // 1 = refuse
		r.Count("selected_upstream_gone_after_loss")
		r.Info["selected_upstream_gone"] = true
		now, expect2 = nil, -1
		allow2 = 60 * time.Second
		unb := false
		for i, e := range entries {
			if i == firstOK {
				allow2 += 5 * time.Second
				continue
			}
			if e.Health == "healthy" {
				now, expect2 = e, 0
				break
			}
			switch e.Health {
			case "blackhole":
				allow2 += 130 * time.Second
			case "silent", "stalls-in-starttls", "silent-after-announce":
				allow2 += 120 * time.Second
				unb = true
			default:
				allow2 += 5 * time.Second
			}
		}
		_ = unb
		if now == nil {
			allow2 *= 4
		}
	}
	allow = allow2
	conns2 := mk(k, 1+c.Pick(2, "after-loss-connections"))
	cs2 := NewConnSet(r, w, "app", conns2)
	cs2.Cross = true
	cs2.KeySpan = 16
	extra2 := func() []Ev { return append(cs2.OpenEv(nil), cs2.PeerEvents()...) }
	if together {
		cs2.Together = true
		r.YieldsOn("yield-seed-2")
	}
	t1 := r.SimElapsed()
	if now != sel {
		before = 0
		if now != nil {
			before = dials(now)
		}
	}
	out = r.Drive(pol, settled(cs2, conns2, expect2), extra2, allow+30*time.Second, allow+10*time.Minute)
	r.YieldsOff()
	if out == Aborted {
		return
	}
	took = r.SimElapsed() - t1
	sig2 := fmt.Sprintf("loss=%s kind=%s", loss, strings.Replace(sel.Kind, "+", "_", -1))
	if now != sel {
		sig2 += " selected-upstream-gone"
		if now != nil {
			sig2 += " next=" + strings.Replace(now.Kind, "+", "_", -1)
		}
	}
	if now == nil {
		if out != GoalMet {
			r.FailSig("not-settled", sig2, "%s after %v: no upstream is usable any more, yet the new local connections were not refused within %v: %v", out, took, allow, cs2.Describe())
			return
		}
		for i, lc := range conns2 {
			if lc.Tp != nil {
				r.FailSig("wrong-endpoint", sig2, "new local connection %d reached a target although no upstream is usable any more", i)
				return
			}
		}
		r.Count("refused_after_every_upstream_gone")
		return
	}
	for i, lc := range conns2 {
		if !cs2.Complete(lc, false) {
			r.FailSig("no-reconnect", sig2, "%s after %v: after %s of the %s session, new local connection %d was not served: %v", out, took, loss, sel.Kind, i, cs2.Describe())
			return
		}
	}
	if took > allow+60*time.Second {
		r.FailSig("slow-reconnect", sig2, "re-establishing after %s took %v", loss, took)
		return
	}
	if !isUDPKind(now.Kind) && dials(now) != before+1 {
		r.FailSig("reconnect-count", sig2, "after %s: %d new physical connections to the selected upstream (expected exactly 1)", loss, dials(now)-before)
		return
	}
	if now != sel {
		r.Count("failover_after_selected_upstream_gone")
		if verify {
			r.Count("failover_to_differently_named_upstream")
		}
	}
	r.Count("reconnect_ok")

	// ---- the new session is kept: one to three minutes later (nothing is cut meanwhile) further local
	// connections are served over it, without another physical connection
	if !c.Chance(1, 2, "later-connections") {
		return
	}
	for _, lc := range conns2 {
		lc.App.Do(Op{Kind: "close"})
	}
	r.RunFor(time.Duration(40+c.Pick(140, "later-s")) * time.Second)
	before = dials(now)
	conns3 := mk(k+len(conns2), 1+c.Pick(2, "later-connections-n"))
	cs3 := NewConnSet(r, w, "app", conns3)
	cs3.Cross = true
	cs3.KeySpan = 16
	extra3 := func() []Ev { return append(cs3.OpenEv(nil), cs3.PeerEvents()...) }
	out = r.Drive(pol, settled(cs3, conns3, expect2), extra3, allow+30*time.Second, allow+10*time.Minute)
	if out == Aborted {
		return
	}
	for i, lc := range conns3 {
		if !cs3.Complete(lc, false) {
			r.FailSig("no-reconnect", sig2+" later", "%s: a while after the session had been re-established (nothing cut since), local connection %d was not served: %v", out, i, cs3.Describe())
			return
		}
	}
	if !isUDPKind(now.Kind) && dials(now) != before {
		r.FailSig("session-not-kept", sig2, "the session re-established after %s did not last: %d further physical connection(s) to the selected upstream although nothing was cut", loss, dials(now)-before)
		return
	}
	r.Count("session_kept_after_reconnect")
}

func failingBefore(entries []*c16entry, firstOK int) string {
	var hs []string
	for i, e := range entries {
		if firstOK >= 0 && i >= firstOK {
			break
		}
		hs = append(hs, e.Health)
	}
	if len(hs) == 0 {
		return "-"
	}
	return strings.Join(hs, ",")
}

func isUDPKind(k string) bool { return k == "udp" || k == "udp+pass" }
