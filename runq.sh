#!/bin/bash
# usage: runq.sh <prop> <seed> <start> <count> [tier] -- run a batch in one worker and summarise
P=$1; SEED=$2; START=$3; COUNT=$4; TIER=${5:-quick}; S=${SCRATCH:-/var/tmp/sv-test}
cat > /tmp/spec-$$.json <<EOT
{"property":"$P","tier":"$TIER","seed":$SEED,"start":$START,"count":$COUNT,"mode":"run","out":"/tmp/out-$$.jsonl","samples":0}
EOT
rm -f /tmp/out-$$.jsonl
(cd $S/harness && GOMAXPROCS=1 GODEBUG=asyncpreemptoff=1,randautoseed=0 VERIF_SPEC=/tmp/spec-$$.json ./worker -test.run TestWorker -test.timeout 60m 2>&1) | tail -15
python3 - /tmp/out-$$.jsonl <<'EOT'
import json,sys,collections
n=0;bad=0;ms=0;rules=collections.Counter()
for l in open(sys.argv[1]):
    r=json.loads(l)
    if r['type']=='run':
        n+=1; ms+=r.get('wall_ms',0)
        v=r.get('viol')
        if v:
            bad+=1; rules[v['rule']+' '+(v.get('sig') or '')]+=1
            print(r['idx'], v['rule'], v['detail'][:260], r.get('spins'))
        elif r.get('hung'): print(r['idx'],'HUNG')
print("runs",n,"violations",bad,"avg ms",ms/max(n,1)); print(rules)
EOT
rm -f /tmp/spec-$$.json /tmp/out-$$.jsonl
