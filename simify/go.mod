module verif/simify

go 1.23
