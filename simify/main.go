// simify rewrites a scratch copy of socketace so that its unmodified logic
// runs on the simulated network and with durably-blocking mutexes, then audits
// the result. Usage: simify <scratch-repo-dir> <inject-dir>
//
// Exit status: 0 ok; 2 on any rewrite or audit problem (infrastructure, never a
// property violation).
package main

import (
	"bytes"
	"fmt"
	"go/ast"
	"go/format"
	"go/parser"
	"go/token"
	"io/ioutil"
	"os"
	"path/filepath"
	"sort"
	"strconv"
	"strings"
)

const simrtPath = "github.com/bokysan/socketace/v2/internal/simrt"

var netRewrite = map[string]string{
	"Dial":           "Dial",
	"DialTimeout":    "DialTimeout",
	"DialUDP":        "DialUDP",
	"DialTCP":        "DialTCP",
	"Listen":         "Listen",
	"ListenPacket":   "ListenPacket",
	"ResolveTCPAddr": "ResolveTCPAddr",
	"ResolveUDPAddr": "ResolveUDPAddr",
	"ResolveIPAddr":  "ResolveIPAddr",
	"Dialer":         "Dialer", // the type: simrt.Dialer has Timeout, Deadline and Dial
}

var tlsRewrite = map[string]string{
	"Dial":           "TLSDial",
	"DialWithDialer": "TLSDialWithDialer",
	"Listen":         "TLSListen",
}

var syncRewrite = map[string]string{
	"Mutex":   "Mutex",
	"RWMutex": "RWMutex",
}

// selectors that must not survive in non-test code of the copy
var deny = map[string][]string{
	"net": {"Dial", "DialTimeout", "DialUDP", "DialTCP", "DialIP", "DialUnix", "Listen", "ListenPacket",
		"ListenTCP", "ListenUDP", "ListenUnix", "ListenUnixgram", "ListenIP", "ListenMulticastUDP",
		"FileConn", "FileListener", "FilePacketConn", "LookupHost", "LookupIP", "LookupAddr", "LookupCNAME",
		"LookupMX", "LookupNS", "LookupPort", "LookupSRV", "LookupTXT", "ResolveTCPAddr", "ResolveUDPAddr",
		"ResolveIPAddr", "Dialer", "ListenConfig", "Resolver", "DefaultResolver"},
	"crypto/tls": {"Dial", "DialWithDialer", "Listen", "Dialer"},
	"net/http": {"ListenAndServe", "ListenAndServeTLS", "Get", "Post", "PostForm", "Head", "DefaultClient",
		"DefaultTransport", "Client", "Transport"},
	"sync":                         {"Mutex", "RWMutex"},
	"github.com/miekg/dns":         {"ClientConfigFromFile", "ListenAndServe", "Exchange", "ExchangeContext"},
	"github.com/gorilla/websocket": {"DefaultDialer"},
}

type stats struct {
	files, changed                                                                 int
	mutex, netCalls, tlsCalls, wsDialers, dnsServe, resolv, fileReads, globalChans int
}

var st stats
var problems []string

func main() {
	if len(os.Args) != 3 {
		fmt.Fprintln(os.Stderr, "usage: simify <scratch-repo> <inject-dir>")
		os.Exit(2)
	}
	root, inject := os.Args[1], os.Args[2]

	// Remove what is never part of a simulated world: tests and the repo's own
	// integration helpers (they use real sockets).
	_ = os.RemoveAll(filepath.Join(root, "internal", "it"))
	var files []string
	err := filepath.Walk(root, func(p string, info os.FileInfo, err error) error {
		if err != nil {
			return err
		}
		if info.IsDir() {
			if info.Name() == ".git" || info.Name() == "examples" {
				return filepath.SkipDir
			}
			return nil
		}
		if strings.HasSuffix(p, "_test.go") {
			return os.Remove(p)
		}
		if strings.HasSuffix(p, ".go") {
			files = append(files, p)
		}
		return nil
	})
	if err != nil {
		die("walk: %v", err)
	}
	sort.Strings(files)
	for _, f := range files {
		rewriteFile(f)
	}

	// inject simrt and the export shims
	err = filepath.Walk(inject, func(p string, info os.FileInfo, err error) error {
		if err != nil || info.IsDir() {
			return err
		}
		rel, _ := filepath.Rel(inject, p)
		dst := filepath.Join(root, "internal", rel)
		if err := os.MkdirAll(filepath.Dir(dst), 0755); err != nil {
			return err
		}
		data, err := ioutil.ReadFile(p)
		if err != nil {
			return err
		}
		return ioutil.WriteFile(dst, data, 0644)
	})
	if err != nil {
		die("inject: %v", err)
	}

	// audit
	for _, f := range files {
		auditFile(f)
	}
	if len(problems) > 0 {
		for _, p := range problems {
			fmt.Fprintln(os.Stderr, "simify audit:", p)
		}
		os.Exit(2)
	}
	fmt.Printf("simify: files=%d changed=%d mutex=%d net=%d tls=%d wsdialer=%d dnsserve=%d resolvconf=%d filereads=%d globalchans=%d\n",
		st.files, st.changed, st.mutex, st.netCalls, st.tlsCalls, st.wsDialers, st.dnsServe, st.resolv, st.fileReads, st.globalChans)
}

func die(format string, args ...interface{}) {
	fmt.Fprintf(os.Stderr, "simify: "+format+"\n", args...)
	os.Exit(2)
}

// importNames maps import path -> local name used in the file.
func importNames(f *ast.File) map[string]string {
	m := map[string]string{}
	for _, im := range f.Imports {
		p, _ := strconv.Unquote(im.Path.Value)
		name := ""
		if im.Name != nil {
			name = im.Name.Name
		} else {
			name = p[strings.LastIndex(p, "/")+1:]
			// versioned module paths: .../kcp-go/v5 -> kcp
			if len(name) > 1 && name[0] == 'v' && strings.Trim(name[1:], "0123456789") == "" {
				q := p[:strings.LastIndex(p, "/")]
				name = q[strings.LastIndex(q, "/")+1:]
				name = strings.TrimSuffix(strings.TrimPrefix(name, "go-"), "-go")
			}
		}
		if name == "_" || name == "." {
			continue
		}
		m[p] = name
	}
	return m
}

func isPkgSel(e ast.Expr, local string) (*ast.SelectorExpr, bool) {
	s, ok := e.(*ast.SelectorExpr)
	if !ok {
		return nil, false
	}
	id, ok := s.X.(*ast.Ident)
	if !ok || id.Name != local || id.Obj != nil {
		return nil, false
	}
	return s, true
}

func rewriteFile(path string) {
	st.files++
	fset := token.NewFileSet()
	f, err := parser.ParseFile(fset, path, nil, parser.ParseComments)
	if err != nil {
		die("parse %s: %v", path, err)
	}
	imps := importNames(f)
	changed := false
	simrtIdent := func() *ast.Ident { return ast.NewIdent("simrt") }

	netN, tlsN, syncN, wsN, dnsN := imps["net"], imps["crypto/tls"], imps["sync"], imps["github.com/gorilla/websocket"], imps["github.com/miekg/dns"]
	ioutilN, osN := imps["io/ioutil"], imps["os"]
	_, hasHTTP := imps["net/http"]

	ast.Inspect(f, func(n ast.Node) bool {
		switch x := n.(type) {
		case *ast.SelectorExpr:
			id, ok := x.X.(*ast.Ident)
			if !ok || id.Obj != nil {
				return true
			}
			switch {
			case netN != "" && id.Name == netN:
				if to, ok := netRewrite[x.Sel.Name]; ok {
					x.X, x.Sel = simrtIdent(), ast.NewIdent(to)
					st.netCalls++
					changed = true
				}
			case tlsN != "" && id.Name == tlsN:
				if to, ok := tlsRewrite[x.Sel.Name]; ok {
					x.X, x.Sel = simrtIdent(), ast.NewIdent(to)
					st.tlsCalls++
					changed = true
				}
			case syncN != "" && id.Name == syncN:
				if to, ok := syncRewrite[x.Sel.Name]; ok {
					x.X, x.Sel = simrtIdent(), ast.NewIdent(to)
					st.mutex++
					changed = true
				}
			case (ioutilN != "" && id.Name == ioutilN || osN != "" && id.Name == osN) && x.Sel.Name == "ReadFile":
				// disk reads take (simulated) time: a scheduling point for everything else
				x.X, x.Sel = simrtIdent(), ast.NewIdent("ReadFile")
				st.fileReads++
				changed = true
			case dnsN != "" && id.Name == dnsN:
				if x.Sel.Name == "ClientConfigFromFile" {
					x.X, x.Sel = simrtIdent(), ast.NewIdent("ResolvConf")
					st.resolv++
					changed = true
				}
			}
		case *ast.CompositeLit:
			if wsN == "" {
				return true
			}
			if s, ok := isPkgSel(x.Type, wsN); ok && s.Sel.Name == "Dialer" {
				has := false
				for _, el := range x.Elts {
					if kv, ok := el.(*ast.KeyValueExpr); ok {
						if k, ok := kv.Key.(*ast.Ident); ok && (k.Name == "NetDialContext" || k.Name == "NetDial") {
							has = true
						}
					}
				}
				if has {
					problems = append(problems, fmt.Sprintf("%s: websocket.Dialer literal already sets a dial function", path))
					return true
				}
				x.Elts = append(x.Elts, &ast.KeyValueExpr{
					Key:   ast.NewIdent("NetDialContext"),
					Value: &ast.SelectorExpr{X: simrtIdent(), Sel: ast.NewIdent("DialContext")},
				})
				st.wsDialers++
				changed = true
			}
		case *ast.CallExpr:
			// tls.DialWithDialer(&net.Dialer{...}, ...): the dialer literal becomes a simrt.Dialer
			if tlsN != "" && netN != "" {
				if fs, ok := isPkgSel(x.Fun, tlsN); ok && fs.Sel.Name == "DialWithDialer" && len(x.Args) > 0 {
					if u, ok := x.Args[0].(*ast.UnaryExpr); ok && u.Op == token.AND {
						if cl, ok := u.X.(*ast.CompositeLit); ok {
							if ts, ok := isPkgSel(cl.Type, netN); ok && ts.Sel.Name == "Dialer" {
								cl.Type = &ast.SelectorExpr{X: simrtIdent(), Sel: ast.NewIdent("Dialer")}
								changed = true
							}
						}
					}
				}
			}
			// <expr>.ListenAndServe() on a miekg *dns.Server
			if dnsN == "" || hasHTTP {
				return true
			}
			if s, ok := x.Fun.(*ast.SelectorExpr); ok && s.Sel.Name == "ListenAndServe" && len(x.Args) == 0 {
				if id, ok := s.X.(*ast.Ident); ok && id.Obj == nil && id.Name == dnsN {
					return true // package-level dns.ListenAndServe: left for the audit
				}
				recv := s.X
				x.Fun = &ast.SelectorExpr{X: simrtIdent(), Sel: ast.NewIdent("DNSListenAndServe")}
				x.Args = []ast.Expr{recv}
				st.dnsServe++
				changed = true
			}
		}
		return true
	})

	// Package-level channels are created when the package is initialised, outside any synctest bubble, and
	// a goroutine blocked on such a channel is not durably blocked: the simulated clock would stand still
	// for ever. Each one is re-created inside the bubble at the start of every run (simrt.ReinitGlobals).
	var reinit []ast.Stmt
	for _, decl := range f.Decls {
		gd, ok := decl.(*ast.GenDecl)
		if !ok || gd.Tok != token.VAR {
			continue
		}
		for _, sp := range gd.Specs {
			vs := sp.(*ast.ValueSpec)
			if len(vs.Values) != len(vs.Names) {
				continue
			}
			for i, v := range vs.Values {
				call, ok := v.(*ast.CallExpr)
				if !ok || len(call.Args) == 0 {
					continue
				}
				fn, ok := call.Fun.(*ast.Ident)
				if !ok || fn.Name != "make" {
					continue
				}
				if _, isChan := call.Args[0].(*ast.ChanType); !isChan || vs.Names[i].Name == "_" {
					continue
				}
				reinit = append(reinit, &ast.AssignStmt{Lhs: []ast.Expr{ast.NewIdent(vs.Names[i].Name)}, Tok: token.ASSIGN, Rhs: []ast.Expr{call}})
				st.globalChans++
			}
		}
	}
	if len(reinit) > 0 {
		f.Decls = append(f.Decls, &ast.FuncDecl{
			Name: ast.NewIdent("init"),
			Type: &ast.FuncType{Params: &ast.FieldList{}},
			Body: &ast.BlockStmt{List: []ast.Stmt{&ast.ExprStmt{X: &ast.CallExpr{
				Fun:  &ast.SelectorExpr{X: simrtIdent(), Sel: ast.NewIdent("RegisterReinit")},
				Args: []ast.Expr{&ast.FuncLit{Type: &ast.FuncType{Params: &ast.FieldList{}}, Body: &ast.BlockStmt{List: reinit}}},
			}}}},
		})
		changed = true
	}

	if !changed {
		return
	}
	st.changed++

	// fix the import table: add simrt, drop imports that became unused
	used := map[string]bool{}
	ast.Inspect(f, func(n ast.Node) bool {
		if s, ok := n.(*ast.SelectorExpr); ok {
			if id, ok := s.X.(*ast.Ident); ok && id.Obj == nil {
				used[id.Name] = true
			}
		}
		return true
	})
	for _, decl := range f.Decls {
		gd, ok := decl.(*ast.GenDecl)
		if !ok || gd.Tok != token.IMPORT {
			continue
		}
		var keep []ast.Spec
		for _, sp := range gd.Specs {
			is := sp.(*ast.ImportSpec)
			p, _ := strconv.Unquote(is.Path.Value)
			if (p == "sync" || p == "net" || p == "crypto/tls" || p == "github.com/miekg/dns" || p == "io/ioutil" || p == "os") && !used[imps[p]] {
				continue
			}
			keep = append(keep, sp)
		}
		gd.Specs = keep
	}
	// add simrt import to the first import decl
	added := false
	for _, decl := range f.Decls {
		gd, ok := decl.(*ast.GenDecl)
		if !ok || gd.Tok != token.IMPORT {
			continue
		}
		gd.Specs = append(gd.Specs, &ast.ImportSpec{Path: &ast.BasicLit{Kind: token.STRING, Value: strconv.Quote(simrtPath)}})
		if !gd.Lparen.IsValid() {
			gd.Lparen = gd.Pos()
			gd.Rparen = gd.End()
		}
		added = true
		break
	}
	if !added {
		// a file without imports (it only gained one through the rewrite)
		gd := &ast.GenDecl{Tok: token.IMPORT, Specs: []ast.Spec{&ast.ImportSpec{Path: &ast.BasicLit{Kind: token.STRING, Value: strconv.Quote(simrtPath)}}}}
		f.Decls = append([]ast.Decl{gd}, f.Decls...)
	}

	var buf bytes.Buffer
	if err := format.Node(&buf, fset, f); err != nil {
		die("print %s: %v", path, err)
	}
	if err := ioutil.WriteFile(path, buf.Bytes(), 0644); err != nil {
		die("write %s: %v", path, err)
	}
}

func auditFile(path string) {
	fset := token.NewFileSet()
	f, err := parser.ParseFile(fset, path, nil, 0)
	if err != nil {
		problems = append(problems, fmt.Sprintf("%s: does not parse after rewrite: %v", path, err))
		return
	}
	imps := importNames(f)
	byLocal := map[string]string{}
	for p, l := range imps {
		byLocal[l] = p
	}
	for p := range imps {
		if p == "os/exec" && !strings.HasSuffix(path, "internal/util/cert/cert.go") && !strings.HasSuffix(path, "internal/client/upstream/dns.go") {
			problems = append(problems, fmt.Sprintf("%s: imports os/exec", path))
		}
		if p == "syscall" || p == "golang.org/x/sys/unix" {
			if !strings.Contains(path, "internal/commands/") && !strings.Contains(path, "cmd/") && !strings.HasSuffix(path, "main.go") {
				problems = append(problems, fmt.Sprintf("%s: imports %s", path, p))
			}
		}
	}
	ast.Inspect(f, func(n ast.Node) bool {
		switch x := n.(type) {
		case *ast.SelectorExpr:
			id, ok := x.X.(*ast.Ident)
			if !ok || id.Obj != nil {
				return true
			}
			if p, ok := byLocal[id.Name]; ok {
				for _, d := range deny[p] {
					if x.Sel.Name == d {
						problems = append(problems, fmt.Sprintf("%s: %s.%s survives the rewrite (network/time seam bypassed)",
							fset.Position(x.Pos()), id.Name, d))
					}
				}
			}
		case *ast.CallExpr:
			if s, ok := x.Fun.(*ast.SelectorExpr); ok {
				if (s.Sel.Name == "ListenAndServe" || s.Sel.Name == "ListenAndServeTLS") && byLocal["http"] == "net/http" {
					problems = append(problems, fmt.Sprintf("%s: %s call in a file importing net/http", fset.Position(x.Pos()), s.Sel.Name))
				}
			}
		case *ast.CompositeLit:
			if s, ok := x.Type.(*ast.SelectorExpr); ok {
				if id, ok := s.X.(*ast.Ident); ok && byLocal[id.Name] == "github.com/gorilla/websocket" && s.Sel.Name == "Dialer" {
					ok2 := false
					for _, el := range x.Elts {
						if kv, ok := el.(*ast.KeyValueExpr); ok {
							if k, ok := kv.Key.(*ast.Ident); ok && k.Name == "NetDialContext" {
								if v, ok := kv.Value.(*ast.SelectorExpr); ok {
									if vi, ok := v.X.(*ast.Ident); ok && vi.Name == "simrt" {
										ok2 = true
									}
								}
							}
						}
					}
					if !ok2 {
						problems = append(problems, fmt.Sprintf("%s: websocket.Dialer without the simulated dial function", fset.Position(x.Pos())))
					}
				}
			}
		}
		return true
	})
}
