package upstream

// Injected by /verif/simify into the scratch copy only (never part of /repo):
// lets the harness look at the session the client settled on.

// SimCurrent returns the upstream currently in use (nil if none). It is called
// by the simulation driver at quiescent points only (every goroutine parked),
// and deliberately does not take the mutex: Connect holds it across a handshake.
func (ul *Upstreams) SimCurrent() Upstream {
	return ul.connection
}
