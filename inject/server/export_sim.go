package server

import "net"

// Injected by /verif/simify into the scratch copy only (never part of /repo).

// SimListener returns the listener of a started socket, packet or DNS server,
// so that the harness can end one of its sessions from the server's side.
func (st *SocketServer) SimListener() net.Listener { return st.listener }
