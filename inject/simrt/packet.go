package simrt

import (
	"net"
	"os"
	"strconv"
	"syscall"
	"time"
)

// Datagram is one message in flight between two packet sockets.
type Datagram struct {
	FlowN    int // ordinal of this datagram within its (from,to) flow
	Seq      int
	Network  string
	From, To net.Addr
	Data     []byte
}

// PacketSock implements net.PacketConn and, when connected, net.Conn.
type PacketSock struct {
	n       *Network
	ID      int
	network string
	key     string
	laddr   net.Addr
	peer    net.Addr // nil when unconnected
	rq      []*Datagram
	closed  bool
	rdl     deadline
	Sent    int
	Recv    int
}

func (n *Network) ListenPacket(network, address string) (net.PacketConn, error) {
	switch family(network) {
	case "udp", "unixgram":
	default:
		return nil, opErr("listen", network, nil, nil, net.UnknownNetworkError(network))
	}
	s, err := n.bindPacket(network, address)
	if err != nil {
		return nil, err
	}
	return s, nil
}

func (n *Network) bindPacket(network, address string) (*PacketSock, error) {
	var key string
	var a net.Addr
	n.mu.Lock()
	down := n.down
	n.mu.Unlock()
	if down {
		return nil, opErr("listen", network, nil, nil, errClosed)
	}
	if address == "" || address == ":0" {
		n.mu.Lock()
		a = n.ephemeral(network)
		n.mu.Unlock()
		key = family(network) + "|" + a.String()
	} else {
		var err error
		key, a, err = n.canon(network, address)
		if err != nil {
			return nil, opErr("listen", network, nil, nil, err)
		}
		if ua, ok := a.(*net.UDPAddr); ok && ua.Port == 0 {
			n.mu.Lock()
			n.nextPort++
			ua.Port = n.nextPort
			n.mu.Unlock()
			key = "udp|" + net.JoinHostPort(ua.IP.String(), strconv.Itoa(ua.Port))
		}
	}
	n.mu.Lock()
	defer n.mu.Unlock()
	if _, busy := n.psocks[key]; busy {
		return nil, opErr("listen", network, nil, a, os.NewSyscallError("bind", syscall.EADDRINUSE))
	}
	n.nextID++
	s := &PacketSock{n: n, ID: n.nextID, network: network, key: key, laddr: a}
	n.psocks[key] = s
	n.allSocks = append(n.allSocks, s)
	n.logf("bind %s (s%d)", key, s.ID)
	return s, nil
}

func (n *Network) dialPacket(network string, laddr net.Addr, raddr net.Addr) (*PacketSock, error) {
	local := ""
	if laddr != nil {
		local = laddr.String()
	}
	s, err := n.bindPacket(network, local)
	if err != nil {
		return nil, err
	}
	s.peer = raddr
	return s, nil
}

// BindFrom binds a packet socket with an explicit source address (harness use).
func (n *Network) BindFrom(network, local string, peer net.Addr) (*PacketSock, error) {
	s, err := n.bindPacket(network, local)
	if err != nil {
		return nil, err
	}
	s.peer = peer
	return s, nil
}

func (s *PacketSock) ReadFrom(p []byte) (int, net.Addr, error) {
	n := s.n
	n.mu.Lock()
	defer n.mu.Unlock()
	for {
		if s.closed {
			return 0, nil, opErr("read", s.network, s.laddr, nil, errClosed)
		}
		if len(s.rq) > 0 {
			d := s.rq[0]
			s.rq = s.rq[1:]
			k := copy(p, d.Data) // excess is discarded, as with a real datagram socket
			s.Recv++
			return k, d.From, nil
		}
		if s.rdl.expired() {
			return 0, nil, opErr("read", s.network, s.laddr, nil, errTimeout)
		}
		n.cond.Wait()
	}
}

func (s *PacketSock) WriteTo(p []byte, addr net.Addr) (int, error) {
	n := s.n
	n.mu.Lock()
	defer n.mu.Unlock()
	if s.closed {
		return 0, opErr("write", s.network, s.laddr, addr, errClosed)
	}
	if addr == nil {
		return 0, opErr("write", s.network, s.laddr, nil, os.NewSyscallError("sendto", syscall.EDESTADDRREQ))
	}
	n.dgramSeq++
	d := &Datagram{Seq: n.dgramSeq, Network: family(s.network), From: s.laddr, To: addr, Data: append([]byte(nil), p...)}
	if n.flowCount == nil {
		n.flowCount = map[string]int{}
	}
	fk := d.From.String() + ">" + d.To.String()
	n.flowCount[fk]++
	d.FlowN = n.flowCount[fk]
	n.flight = append(n.flight, d)
	if n.dgramTapOn {
		n.dgramTap = append(n.dgramTap, d.Data...)
	}
	s.Sent++
	n.notify()
	return len(p), nil
}

func (s *PacketSock) Read(p []byte) (int, error) {
	k, _, err := s.ReadFrom(p)
	return k, err
}

func (s *PacketSock) Write(p []byte) (int, error) {
	return s.WriteTo(p, s.peer)
}

func (s *PacketSock) Close() error {
	n := s.n
	n.mu.Lock()
	defer n.mu.Unlock()
	if s.closed {
		return opErr("close", s.network, s.laddr, nil, errClosed)
	}
	s.closed = true
	if n.psocks[s.key] == s {
		delete(n.psocks, s.key)
	}
	s.rdl.set(n, time.Time{})
	n.logf("close s%d (%s)", s.ID, s.key)
	n.cond.Broadcast()
	return nil
}

func (s *PacketSock) LocalAddr() net.Addr  { return s.laddr }
func (s *PacketSock) RemoteAddr() net.Addr { return s.peer }

func (s *PacketSock) SetDeadline(t time.Time) error { return s.SetReadDeadline(t) }
func (s *PacketSock) SetReadDeadline(t time.Time) error {
	s.n.mu.Lock()
	defer s.n.mu.Unlock()
	if s.closed {
		return opErr("set", s.network, s.laddr, nil, errClosed)
	}
	s.rdl.set(s.n, t)
	s.n.cond.Broadcast()
	return nil
}
func (s *PacketSock) SetWriteDeadline(t time.Time) error { return nil }

// Kernel-buffer tuning calls some libraries make on UDP sockets.
func (s *PacketSock) SetReadBuffer(int) error  { return nil }
func (s *PacketSock) SetWriteBuffer(int) error { return nil }

func (s *PacketSock) Key() string { return s.key }
func (s *PacketSock) IsClosed() bool {
	s.n.mu.Lock()
	defer s.n.mu.Unlock()
	return s.closed
}

// ---------------------------------------------------------------- driver operations on datagrams

type DgramState struct {
	FlowN int
	Seq   int
	From  string
	To    string
	Len   int
}

func (d DgramState) Desc() string {
	return d.From + ">" + d.To + " #" + strconv.Itoa(d.FlowN) + " " + strconv.Itoa(d.Len) + "B"
}

func (n *Network) Flight() []DgramState {
	n.mu.Lock()
	defer n.mu.Unlock()
	out := make([]DgramState, 0, len(n.flight))
	for _, d := range n.flight {
		out = append(out, DgramState{FlowN: d.FlowN, Seq: d.Seq, From: d.From.String(), To: d.To.String(), Len: len(d.Data)})
	}
	return out
}

func (n *Network) takeFlight(seq int, remove bool) *Datagram {
	for i, d := range n.flight {
		if d.Seq == seq {
			if remove {
				n.flight = append(n.flight[:i:i], n.flight[i+1:]...)
			}
			return d
		}
	}
	return nil
}

// PeekDgram returns a copy of an in-flight datagram's payload.
func (n *Network) PeekDgram(seq int) *Datagram {
	n.mu.Lock()
	defer n.mu.Unlock()
	d := n.takeFlight(seq, false)
	if d == nil {
		return nil
	}
	c := *d
	c.Data = append([]byte(nil), d.Data...)
	return &c
}

func (n *Network) enqueue(d *Datagram) bool {
	key := d.Network + "|" + d.To.String()
	s := n.psocks[key]
	if s == nil {
		s = n.psocks[wildcardKey(key)]
	}
	if s == nil || s.closed {
		return false
	}
	if s.peer != nil && s.peer.String() != d.From.String() {
		return false // connected socket: foreign source filtered by the kernel
	}
	s.rq = append(s.rq, d)
	n.cond.Broadcast()
	return true
}

// DeliverDgram hands an in-flight datagram to its destination socket. With
// keep it stays in flight as well (duplication). Returns false if nobody is
// bound there (the datagram is lost).
func (n *Network) DeliverDgram(seq int, keep bool) bool {
	n.mu.Lock()
	defer n.mu.Unlock()
	d := n.takeFlight(seq, !keep)
	if d == nil {
		return false
	}
	if keep {
		c := *d
		d = &c
	}
	return n.enqueue(d)
}

// DropDgram loses an in-flight datagram.
func (n *Network) DropDgram(seq int) bool {
	n.mu.Lock()
	defer n.mu.Unlock()
	return n.takeFlight(seq, true) != nil
}

// TakeDgram removes an in-flight datagram and returns it (middlebox processing).
func (n *Network) TakeDgram(seq int) *Datagram {
	n.mu.Lock()
	defer n.mu.Unlock()
	return n.takeFlight(seq, true)
}

// Inject delivers a datagram made by the harness (spoofing, replay, middlebox output).
func (n *Network) Inject(network string, from, to net.Addr, data []byte) bool {
	n.mu.Lock()
	defer n.mu.Unlock()
	n.dgramSeq++
	d := &Datagram{Seq: n.dgramSeq, Network: family(network), From: from, To: to, Data: append([]byte(nil), data...)}
	return n.enqueue(d)
}

func (n *Network) Socks() []*PacketSock {
	n.mu.Lock()
	defer n.mu.Unlock()
	return append([]*PacketSock(nil), n.allSocks...)
}

// TapDatagrams records the payload of every datagram sent from now on.
func (n *Network) TapDatagrams() {
	n.mu.Lock()
	n.dgramTapOn = true
	n.mu.Unlock()
}

func (n *Network) DgramTapBytes() []byte {
	n.mu.Lock()
	defer n.mu.Unlock()
	return append([]byte(nil), n.dgramTap...)
}
