// Package simrt is injected into a scratch copy of socketace by /verif/simify.
// It is never part of /repo. It provides (a) mutexes that block durably under
// testing/synctest and (b) an in-memory network ("simnet") behind the same
// call shapes as package net, so that a mechanical rewrite of net.Dial/Listen
// call sites puts the unmodified socketace logic on a simulated transport.
//
// Written in Go 1.14 syntax because the scratch copy keeps socketace's go.mod.
package simrt

import "sync"

// Yield, when set by the simulator, is called at every lock acquisition and
// release of a rewritten mutex: a scheduling point at which the simulator may
// let other runnable goroutines go first (seeded, so that lock-granularity
// interleavings - check-then-act across two critical sections - are explored
// and replayed). Nil outside the windows in which a scenario asks for it.
var Yield func()

func yield() {
	if h := Yield; h != nil {
		h()
	}
}

// Mutex has the semantics of sync.Mutex but a goroutine waiting for it is
// parked in sync.Cond.Wait, which testing/synctest treats as durably blocked
// (a goroutine waiting in sync.Mutex.Lock is not, and would stall the fake
// clock for ever when the holder is waiting for a timer).
type Mutex struct {
	mu     sync.Mutex
	cond   *sync.Cond
	self   *Mutex // detects a struct copy made after first use (cond would point at the original's mu)
	locked bool
}

func (m *Mutex) Lock() {
	yield()
	m.mu.Lock()
	if m.cond == nil || m.self != m {
		m.cond = sync.NewCond(&m.mu)
		m.self = m
	}
	for m.locked {
		m.cond.Wait()
	}
	m.locked = true
	m.mu.Unlock()
}

func (m *Mutex) Unlock() {
	m.mu.Lock()
	if !m.locked {
		m.mu.Unlock()
		panic("simrt: unlock of unlocked mutex")
	}
	m.locked = false
	if m.cond != nil {
		m.cond.Signal()
	}
	m.mu.Unlock()
	yield()
}

// RWMutex: writer-preferring is not required by the sync contract; keep it simple.
type RWMutex struct {
	mu      sync.Mutex
	cond    *sync.Cond
	writer  bool
	readers int
}

func (m *RWMutex) init() {
	if m.cond == nil {
		m.cond = sync.NewCond(&m.mu)
	}
}

func (m *RWMutex) Lock() {
	yield()
	m.mu.Lock()
	m.init()
	for m.writer || m.readers > 0 {
		m.cond.Wait()
	}
	m.writer = true
	m.mu.Unlock()
}

func (m *RWMutex) Unlock() {
	m.mu.Lock()
	m.init()
	if !m.writer {
		m.mu.Unlock()
		panic("simrt: unlock of unlocked rwmutex")
	}
	m.writer = false
	m.cond.Broadcast()
	m.mu.Unlock()
	yield()
}

func (m *RWMutex) RLock() {
	yield()
	m.mu.Lock()
	m.init()
	for m.writer {
		m.cond.Wait()
	}
	m.readers++
	m.mu.Unlock()
}

func (m *RWMutex) RUnlock() {
	m.mu.Lock()
	m.init()
	if m.readers <= 0 {
		m.mu.Unlock()
		panic("simrt: runlock of unlocked rwmutex")
	}
	m.readers--
	if m.readers == 0 {
		m.cond.Broadcast()
	}
	m.mu.Unlock()
	yield()
}

func (m *RWMutex) RLocker() sync.Locker { return (*rlocker)(m) }

type rlocker RWMutex

func (r *rlocker) Lock()   { (*RWMutex)(r).RLock() }
func (r *rlocker) Unlock() { (*RWMutex)(r).RUnlock() }
