package simrt

import (
	"fmt"
	"io"
	"net"
	"os"
	"strconv"
	"strings"
	"sync"
	"syscall"
	"time"
)

// Network is one simulated network. Exactly one is current at a time (Cur);
// the harness installs a fresh one at the start of every run, inside the
// synctest bubble. No method here draws random numbers or reads a real clock:
// socket calls only enqueue bytes and park; every delivery, loss, cut or
// refusal is applied by the harness driver at a quiescent point.
type Network struct {
	mu   sync.Mutex // held for short, non-blocking critical sections only
	cond *sync.Cond // every parked socket call waits here (durable under synctest)

	nextID    int
	nextPort  int
	listeners map[string]*Listener   // "tcp|10.0.0.1:80"
	psocks    map[string]*PacketSock // "udp|10.0.0.1:53"
	allConns  []*Conn
	allLinks  []*Link
	allSocks  []*PacketSock
	allLsn    []*Listener
	flight    []*Datagram
	dgramSeq  int
	hosts     map[string]string // host name -> IP literal
	dialFate  map[string]int    // "tcp|addr" -> DialRefuse / DialBlackhole
	redirect  map[string]string // "tcp|addr" -> "addr2"
	resolv    []string
	// DefaultCap is the per-direction buffer bound (in-flight + unread) of new
	// stream connections; 0 means unbounded.
	DefaultCap int
	// SourceIP is the local IP given to the next dialled or auto-bound socket.
	SourceIP string
	// SourcePort, if non-zero, is the local port of the next dialled or auto-bound socket (one shot): a
	// client that reuses its source port, or many clients seen through one resolver.
	SourcePort int
	// Log receives one line per network-level happening (optional).
	Log func(format string, args ...interface{})

	DialCount   int
	AcceptCount int
	down        bool
	dgramTapOn  bool
	flowCount   map[string]int
	dgramTap    []byte
	// TapNew records everything written on stream links created from now on.
	TapNew bool
	// Activity receives a token whenever something new may be deliverable
	// (a write, a close, a datagram, a connect). The driver sleeps on it.
	Activity chan struct{}
}

// Poke wakes the driver (harness use: a scripted operation has finished).
func (n *Network) Poke() { n.notify() }

func (n *Network) notify() {
	select {
	case n.Activity <- struct{}{}:
	default:
	}
}

// Cur is the network used by the package-level Dial/Listen functions.
var Cur *Network

// OSConnectTimeout is how long an unanswered TCP connect takes to fail.
const OSConnectTimeout = 127 * time.Second

const (
	DialOK = iota
	DialRefuse
	DialBlackhole
)

func NewNetwork() *Network {
	n := &Network{
		nextPort:  40000,
		listeners: map[string]*Listener{},
		psocks:    map[string]*PacketSock{},
		hosts:     map[string]string{"localhost": "127.0.0.1"},
		dialFate:  map[string]int{},
		redirect:  map[string]string{},
		SourceIP:  "127.0.0.1",
		Activity:  make(chan struct{}, 1),
	}
	n.cond = sync.NewCond(&n.mu)
	return n
}

func (n *Network) logf(format string, args ...interface{}) {
	if n.Log != nil {
		n.Log(format, args...)
	}
}

// ---------------------------------------------------------------- addresses

func family(network string) string {
	switch network {
	case "tcp", "tcp4", "tcp6":
		return "tcp"
	case "udp", "udp4", "udp6":
		return "udp"
	}
	return network
}

func (n *Network) AddHost(name, ip string) {
	n.mu.Lock()
	n.hosts[strings.ToLower(name)] = ip
	n.mu.Unlock()
}

func (n *Network) SetResolvConf(servers []string) { n.resolv = servers }

func (n *Network) SetDialFate(network, addr string, fate int) {
	n.mu.Lock()
	n.dialFate[family(network)+"|"+addr] = fate
	n.cond.Broadcast() // a connect held by DialBlackhole goes on when the fate changes
	n.mu.Unlock()
}

func (n *Network) SetRedirect(network, addr, to string) {
	n.mu.Lock()
	if to == "" {
		delete(n.redirect, family(network)+"|"+addr)
	} else {
		n.redirect[family(network)+"|"+addr] = to
	}
	n.mu.Unlock()
}

// resolveHostPort turns host:port into ip:port using the static host table.
func (n *Network) resolveHostPort(hp string) (string, int, error) {
	host, port, err := net.SplitHostPort(hp)
	if err != nil {
		return "", 0, &net.AddrError{Err: err.Error(), Addr: hp}
	}
	p := 0
	if port != "" {
		p, err = strconv.Atoi(port)
		if err != nil || p < 0 || p > 65535 {
			return "", 0, &net.AddrError{Err: "invalid port", Addr: hp}
		}
	}
	if host == "" {
		return "0.0.0.0", p, nil
	}
	if ip := net.ParseIP(host); ip != nil {
		return ip.String(), p, nil
	}
	n.mu.Lock()
	ip, ok := n.hosts[strings.ToLower(host)]
	n.mu.Unlock()
	if !ok {
		return "", 0, &net.DNSError{Err: "no such host", Name: host, IsNotFound: true}
	}
	return ip, p, nil
}

func mkAddr(network, ip string, port int) net.Addr {
	switch family(network) {
	case "tcp":
		return &net.TCPAddr{IP: net.ParseIP(ip), Port: port}
	case "udp":
		return &net.UDPAddr{IP: net.ParseIP(ip), Port: port}
	}
	return &net.UnixAddr{Name: ip, Net: network}
}

func isInet(network string) bool {
	f := family(network)
	return f == "tcp" || f == "udp"
}

// canon returns the lookup key and a net.Addr for (network, address).
func (n *Network) canon(network, address string) (string, net.Addr, error) {
	if isInet(network) {
		ip, port, err := n.resolveHostPort(address)
		if err != nil {
			return "", nil, err
		}
		a := mkAddr(network, ip, port)
		return family(network) + "|" + net.JoinHostPort(ip, strconv.Itoa(port)), a, nil
	}
	switch network {
	case "unix", "unixpacket", "unixgram":
		return network + "|" + address, &net.UnixAddr{Name: address, Net: network}, nil
	}
	return "", nil, net.UnknownNetworkError(network)
}

func wildcardKey(key string) string {
	i := strings.Index(key, "|")
	if i < 0 {
		return key
	}
	_, port, err := net.SplitHostPort(key[i+1:])
	if err != nil {
		return key
	}
	return key[:i+1] + net.JoinHostPort("0.0.0.0", port)
}

func (n *Network) ephemeral(network string) net.Addr {
	if n.SourcePort != 0 && (strings.HasPrefix(network, "udp") || strings.HasPrefix(network, "tcp")) {
		p := n.SourcePort
		n.SourcePort = 0
		return mkAddr(network, n.SourceIP, p)
	}
	n.nextPort++
	if isInet(network) {
		return mkAddr(network, n.SourceIP, n.nextPort)
	}
	return &net.UnixAddr{Name: fmt.Sprintf("@sim-%d", n.nextPort), Net: network}
}

// ---------------------------------------------------------------- errors

func opErr(op, network string, src, dst net.Addr, err error) error {
	return &net.OpError{Op: op, Net: network, Source: src, Addr: dst, Err: err}
}

type timeoutError struct{}

func (timeoutError) Error() string   { return "i/o timeout" }
func (timeoutError) Timeout() bool   { return true }
func (timeoutError) Temporary() bool { return true }
func (timeoutError) Is(err error) bool {
	return err == os.ErrDeadlineExceeded
}

var errTimeout error = timeoutError{}

var errClosed = net.ErrClosed // "use of closed network connection"

// ---------------------------------------------------------------- deadlines

type deadline struct {
	t     time.Time
	timer *time.Timer
}

// set must be called with n.mu held.
func (d *deadline) set(n *Network, t time.Time) {
	if d.timer != nil {
		d.timer.Stop()
		d.timer = nil
	}
	d.t = t
	if !t.IsZero() {
		dur := time.Until(t)
		if dur <= 0 {
			n.cond.Broadcast()
			return
		}
		d.timer = time.AfterFunc(dur, func() {
			n.mu.Lock()
			n.cond.Broadcast()
			n.mu.Unlock()
		})
	}
}

func (d *deadline) expired() bool {
	return !d.t.IsZero() && !time.Now().Before(d.t)
}

// ---------------------------------------------------------------- stream links

// Link is one direction of a stream connection.
type Link struct {
	ID       int
	Name     string
	From, To *Conn

	inflight []byte // written by From, not yet delivered
	readable []byte // delivered, not yet read by To
	cap      int

	finWritten   bool // From closed; the FIN follows all in-flight bytes
	finDelivered bool
	rst          bool // reset: reader sees ECONNRESET once readable is drained, writer sees EPIPE
	timedOut     bool // with rst: the kernel gave up on the peer (retransmission / keep-alive probes exhausted): both see ETIMEDOUT
	Dead         bool // black hole: the driver must not deliver anything any more

	stallArmed   bool // the next Write parks after enqueueing its bytes
	stallWaiters int
	stallRelease int

	Written   int64
	Delivered int64
	Consumed  int64

	tapOn bool
	tap   []byte
}

// Conn is one endpoint of a stream connection; implements net.Conn.
type Conn struct {
	n       *Network
	ID      int
	network string
	laddr   net.Addr
	raddr   net.Addr
	in, out *Link
	closed  bool
	rdl     deadline
	wdl     deadline
	Tag     string // "dial" or "accept"
	Key     string // listener key this connection was made to
}

func (n *Network) newPair(network string, laddr, raddr net.Addr, key string) (*Conn, *Conn) {
	a := &Conn{n: n, network: network, laddr: laddr, raddr: raddr, Tag: "dial", Key: key}
	b := &Conn{n: n, network: network, laddr: raddr, raddr: laddr, Tag: "accept", Key: key}
	n.nextID++
	a.ID = n.nextID
	n.nextID++
	b.ID = n.nextID
	ab := &Link{From: a, To: b, cap: n.DefaultCap, tapOn: n.TapNew}
	ba := &Link{From: b, To: a, cap: n.DefaultCap, tapOn: n.TapNew}
	n.nextID++
	ab.ID = n.nextID
	n.nextID++
	ba.ID = n.nextID
	ab.Name = fmt.Sprintf("L%d[%s c%d>c%d]", ab.ID, key, a.ID, b.ID)
	ba.Name = fmt.Sprintf("L%d[%s c%d>c%d]", ba.ID, key, b.ID, a.ID)
	a.out, a.in = ab, ba
	b.out, b.in = ba, ab
	n.allConns = append(n.allConns, a, b)
	n.allLinks = append(n.allLinks, ab, ba)
	return a, b
}

func (c *Conn) Read(p []byte) (int, error) {
	n := c.n
	n.mu.Lock()
	defer n.mu.Unlock()
	for {
		if c.closed {
			return 0, opErr("read", c.network, c.laddr, c.raddr, errClosed)
		}
		if len(p) == 0 {
			return 0, nil
		}
		if len(c.in.readable) > 0 {
			k := copy(p, c.in.readable)
			c.in.readable = c.in.readable[k:]
			if len(c.in.readable) == 0 {
				c.in.readable = nil
			}
			c.in.Consumed += int64(k)
			n.cond.Broadcast() // space for a parked writer
			return k, nil
		}
		if c.in.rst {
			if c.in.timedOut {
				return 0, opErr("read", c.network, c.laddr, c.raddr, os.NewSyscallError("read", syscall.ETIMEDOUT))
			}
			return 0, opErr("read", c.network, c.laddr, c.raddr, os.NewSyscallError("read", syscall.ECONNRESET))
		}
		if c.in.finDelivered {
			return 0, io.EOF
		}
		if c.rdl.expired() {
			return 0, opErr("read", c.network, c.laddr, c.raddr, errTimeout)
		}
		n.cond.Wait()
	}
}

func (c *Conn) Write(p []byte) (int, error) {
	n := c.n
	n.mu.Lock()
	defer n.mu.Unlock()
	total := 0
	l := c.out
	for len(p) > 0 {
		if c.closed {
			return total, opErr("write", c.network, c.laddr, c.raddr, errClosed)
		}
		if l.rst {
			if l.timedOut {
				return total, opErr("write", c.network, c.laddr, c.raddr, os.NewSyscallError("write", syscall.ETIMEDOUT))
			}
			return total, opErr("write", c.network, c.laddr, c.raddr, os.NewSyscallError("write", syscall.EPIPE))
		}
		if c.wdl.expired() {
			return total, opErr("write", c.network, c.laddr, c.raddr, errTimeout)
		}
		space := len(p)
		if l.cap > 0 {
			space = l.cap - len(l.inflight) - len(l.readable)
		}
		if space > 0 {
			k := space
			if k > len(p) {
				k = len(p)
			}
			l.inflight = append(l.inflight, p[:k]...)
			if l.tapOn {
				l.tap = append(l.tap, p[:k]...)
			}
			l.Written += int64(k)
			total += k
			p = p[k:]
			n.notify()
			continue
		}
		n.cond.Wait()
	}
	if l.stallArmed {
		// Write-completion stall: the bytes are on the wire, the caller has not
		// returned yet (a legal behaviour of any blocking socket write).
		l.stallArmed = false
		l.stallWaiters++
		my := l.stallWaiters
		for l.stallRelease < my && !c.closed {
			n.cond.Wait()
		}
	}
	return total, nil
}

func (c *Conn) Close() error {
	n := c.n
	n.mu.Lock()
	defer n.mu.Unlock()
	if c.closed {
		return opErr("close", c.network, c.laddr, c.raddr, errClosed)
	}
	c.closed = true
	c.out.finWritten = true
	c.rdl.set(n, time.Time{})
	c.wdl.set(n, time.Time{})
	n.logf("close c%d (%s %s)", c.ID, c.Tag, c.Key)
	n.cond.Broadcast()
	n.notify()
	return nil
}

func (c *Conn) LocalAddr() net.Addr  { return c.laddr }
func (c *Conn) RemoteAddr() net.Addr { return c.raddr }

func (c *Conn) SetDeadline(t time.Time) error {
	c.n.mu.Lock()
	defer c.n.mu.Unlock()
	if c.closed {
		return opErr("set", c.network, c.laddr, c.raddr, errClosed)
	}
	c.rdl.set(c.n, t)
	c.wdl.set(c.n, t)
	c.n.cond.Broadcast()
	return nil
}

func (c *Conn) SetReadDeadline(t time.Time) error {
	c.n.mu.Lock()
	defer c.n.mu.Unlock()
	if c.closed {
		return opErr("set", c.network, c.laddr, c.raddr, errClosed)
	}
	c.rdl.set(c.n, t)
	c.n.cond.Broadcast()
	return nil
}

func (c *Conn) SetWriteDeadline(t time.Time) error {
	c.n.mu.Lock()
	defer c.n.mu.Unlock()
	if c.closed {
		return opErr("set", c.network, c.laddr, c.raddr, errClosed)
	}
	c.wdl.set(c.n, t)
	c.n.cond.Broadcast()
	return nil
}

// In and Out expose the links to the harness.
func (c *Conn) In() *Link  { return c.in }
func (c *Conn) Out() *Link { return c.out }
func (c *Conn) IsClosed() bool {
	c.n.mu.Lock()
	defer c.n.mu.Unlock()
	return c.closed
}

// ---------------------------------------------------------------- listeners

type Listener struct {
	n       *Network
	ID      int
	network string
	key     string
	addr    net.Addr
	backlog []*Conn
	closed  bool
	Accepts int
}

func (l *Listener) Accept() (net.Conn, error) {
	n := l.n
	n.mu.Lock()
	defer n.mu.Unlock()
	for {
		if l.closed {
			return nil, opErr("accept", l.network, nil, l.addr, errClosed)
		}
		if len(l.backlog) > 0 {
			c := l.backlog[0]
			l.backlog = l.backlog[1:]
			l.Accepts++
			n.AcceptCount++
			return c, nil
		}
		n.cond.Wait()
	}
}

func (l *Listener) Close() error {
	n := l.n
	n.mu.Lock()
	defer n.mu.Unlock()
	if l.closed {
		return opErr("close", l.network, nil, l.addr, errClosed)
	}
	l.closed = true
	if n.listeners[l.key] == l {
		delete(n.listeners, l.key)
	}
	// connections still in the backlog are reset, as a kernel does
	for _, c := range l.backlog {
		c.in.rst = true
		c.out.rst = true
		c.closed = true
	}
	l.backlog = nil
	n.cond.Broadcast()
	return nil
}

func (l *Listener) Addr() net.Addr { return l.addr }
func (l *Listener) Key() string    { return l.key }
func (l *Listener) Backlog() int {
	l.n.mu.Lock()
	defer l.n.mu.Unlock()
	return len(l.backlog)
}

func (n *Network) Listen(network, address string) (net.Listener, error) {
	switch family(network) {
	case "tcp", "unix", "unixpacket":
	default:
		return nil, opErr("listen", network, nil, nil, net.UnknownNetworkError(network))
	}
	key, a, err := n.canon(network, address)
	if err != nil {
		return nil, opErr("listen", network, nil, nil, err)
	}
	n.mu.Lock()
	defer n.mu.Unlock()
	if isInet(network) {
		if ta, ok := a.(*net.TCPAddr); ok && ta.Port == 0 {
			n.nextPort++
			ta.Port = n.nextPort
			key = "tcp|" + net.JoinHostPort(ta.IP.String(), strconv.Itoa(ta.Port))
		}
	}
	if _, busy := n.listeners[key]; busy {
		return nil, opErr("listen", network, nil, a, os.NewSyscallError("bind", syscall.EADDRINUSE))
	}
	n.nextID++
	l := &Listener{n: n, ID: n.nextID, network: network, key: key, addr: a}
	n.listeners[key] = l
	n.allLsn = append(n.allLsn, l)
	n.logf("listen %s", key)
	return l, nil
}

func (n *Network) findListener(key string) *Listener {
	if l, ok := n.listeners[key]; ok {
		return l
	}
	if l, ok := n.listeners[wildcardKey(key)]; ok {
		return l
	}
	return nil
}

// Dial connects at once when a listener is bound (the connection sits in the
// backlog until accepted, as with a kernel), is refused when none is, and
// parks until its deadline when the address is configured as a black hole.
func (n *Network) Dial(network, address string, timeout time.Duration) (net.Conn, error) {
	switch family(network) {
	case "tcp", "unix", "unixpacket":
	case "udp", "unixgram":
		_, ra, err := n.canon(network, address)
		if err != nil {
			return nil, opErr("dial", network, nil, nil, err)
		}
		return n.dialPacket(network, nil, ra)
	default:
		return nil, opErr("dial", network, nil, nil, net.UnknownNetworkError(network))
	}
	key, ra, err := n.canon(network, address)
	if err != nil {
		return nil, opErr("dial", network, nil, nil, err)
	}
	n.mu.Lock()
	defer n.mu.Unlock()
	n.DialCount++
	if to, ok := n.redirect[key]; ok {
		n.mu.Unlock()
		k2, _, err := n.canon(network, to)
		n.mu.Lock()
		if err == nil {
			key = k2
		}
	}
	fate := n.dialFate[key]
	if fate == DialBlackhole {
		var dl deadline
		if timeout <= 0 || timeout > OSConnectTimeout {
			// a connect that nobody answers fails with ETIMEDOUT once the kernel gives up
			// (Linux: tcp_syn_retries=6, about 127 s)
			timeout = OSConnectTimeout
		}
		dl.set(n, time.Now().Add(timeout))
		n.logf("dial %s: black hole", key)
		for !dl.expired() && !n.down {
			n.cond.Wait()
			if n.dialFate[key] != DialBlackhole {
				break
			}
		}
		if dl.expired() || n.down {
			return nil, opErr("dial", network, nil, ra, errTimeout)
		}
		fate = n.dialFate[key]
	}
	l := n.findListener(key)
	if fate == DialRefuse || l == nil || l.closed || n.down {
		n.logf("dial %s: refused", key)
		return nil, opErr("dial", network, nil, ra, os.NewSyscallError("connect", syscall.ECONNREFUSED))
	}
	la := n.ephemeral(network)
	a, b := n.newPair(network, la, ra, l.key)
	l.backlog = append(l.backlog, b)
	n.logf("dial %s: connected c%d<->c%d", key, a.ID, b.ID)
	n.cond.Broadcast()
	n.notify()
	return a, nil
}

// Pipe returns a connected pair that is not attached to any listener (used
// for standard-stream carriers).
func (n *Network) Pipe(name string) (*Conn, *Conn) {
	n.mu.Lock()
	defer n.mu.Unlock()
	la := &net.UnixAddr{Name: name + "-a", Net: "pipe"}
	ra := &net.UnixAddr{Name: name + "-b", Net: "pipe"}
	return n.newPair("pipe", la, ra, "pipe|"+name)
}

// ---------------------------------------------------------------- driver operations on links

type LinkState struct {
	ID         int
	Name       string
	Key        string
	Inflight   int
	Readable   int
	FinPending bool // FIN written, all data delivered, FIN not yet delivered
	FinWritten bool
	FinDone    bool
	Rst        bool
	Dead       bool
	SinkClosed bool
	Stalled    int // writers parked in a write-completion stall
	Written    int64
	Delivered  int64
	Consumed   int64
	FromTag    string
	Reverse    int // ID of the opposite direction's link
}

func (n *Network) linkStateLocked(l *Link) LinkState {
	return LinkState{
		ID: l.ID, Name: l.Name, Key: l.From.Key,
		Inflight: len(l.inflight), Readable: len(l.readable),
		FinPending: l.finWritten && !l.finDelivered && len(l.inflight) == 0 && !l.rst,
		FinWritten: l.finWritten, FinDone: l.finDelivered, Rst: l.rst, Dead: l.Dead,
		SinkClosed: l.To.closed,
		Stalled:    l.stallWaiters - l.stallRelease,
		Written:    l.Written, Delivered: l.Delivered, Consumed: l.Consumed,
		FromTag: l.From.Tag,
		Reverse: l.To.out.ID,
	}
}

// LinkStates returns a snapshot of every stream link in creation order.
func (n *Network) LinkStates() []LinkState {
	n.mu.Lock()
	defer n.mu.Unlock()
	out := make([]LinkState, 0, len(n.allLinks))
	for _, l := range n.allLinks {
		out = append(out, n.linkStateLocked(l))
	}
	return out
}

func (n *Network) Link(id int) *Link {
	n.mu.Lock()
	defer n.mu.Unlock()
	for _, l := range n.allLinks {
		if l.ID == id {
			return l
		}
	}
	return nil
}

func (n *Network) Links() []*Link {
	n.mu.Lock()
	defer n.mu.Unlock()
	return append([]*Link(nil), n.allLinks...)
}

// Deliver moves up to k in-flight bytes to the reader's buffer. Data sent to
// an endpoint that has been closed is answered with a reset, as TCP does.
func (n *Network) Deliver(l *Link, k int) int {
	n.mu.Lock()
	defer n.mu.Unlock()
	if l.Dead || l.rst {
		return 0
	}
	if k > len(l.inflight) {
		k = len(l.inflight)
	}
	if k <= 0 {
		return 0
	}
	if l.To.closed {
		// The receiver has closed its socket: its kernel answers with a reset. The
		// writer's further writes fail (EPIPE). The opposite direction is not
		// touched: whatever the closed endpoint had written, and its FIN, were
		// sent before the reset and are still delivered in order (a reader that
		// has received the FIN sees end-of-stream, as on Linux).
		l.inflight = nil
		l.rst = true
		n.cond.Broadcast()
		return k
	}
	l.readable = append(l.readable, l.inflight[:k]...)
	l.inflight = l.inflight[k:]
	if len(l.inflight) == 0 {
		l.inflight = nil
	}
	l.Delivered += int64(k)
	n.cond.Broadcast()
	return k
}

// DeliverFin delivers the end-of-stream marker (only once all data is delivered).
func (n *Network) DeliverFin(l *Link) bool {
	n.mu.Lock()
	defer n.mu.Unlock()
	if l.Dead || l.rst || !l.finWritten || l.finDelivered || len(l.inflight) > 0 {
		return false
	}
	l.finDelivered = true
	n.cond.Broadcast()
	return true
}

// Reset cuts a connection in both directions (carrier cut): in-flight data is
// lost, both ends see a reset.
func (n *Network) Reset(c *Conn) {
	n.mu.Lock()
	defer n.mu.Unlock()
	for _, l := range []*Link{c.in, c.out} {
		l.inflight = nil
		l.rst = true
	}
	n.logf("reset c%d", c.ID)
	n.cond.Broadcast()
}

// TimeoutKill ends a connection the way the kernel ends one whose peer stopped
// answering (retransmissions or keep-alive probes exhausted, TCP_USER_TIMEOUT):
// in-flight data is lost and both ends get ETIMEDOUT, an error whose
// net.Error.Timeout() is true although it is final for the connection.
func (n *Network) TimeoutKill(c *Conn) {
	n.mu.Lock()
	defer n.mu.Unlock()
	for _, l := range []*Link{c.in, c.out} {
		l.inflight = nil
		l.rst = true
		l.timedOut = true
	}
	n.logf("timeout-kill c%d", c.ID)
	n.cond.Broadcast()
}

// Blackhole makes both directions of a connection silently dead (half-open /
// partition): nothing is delivered any more, nobody is told.
func (n *Network) Blackhole(c *Conn, dead bool) {
	n.mu.Lock()
	defer n.mu.Unlock()
	c.in.Dead = dead
	c.out.Dead = dead
	n.cond.Broadcast()
}

// InjectBytes appends bytes to a link's in-flight data as if its writer had
// sent them (corruption / protocol violation by the peer).
func (n *Network) InjectBytes(l *Link, data []byte) {
	n.mu.Lock()
	l.inflight = append(l.inflight, data...)
	n.cond.Broadcast()
	n.mu.Unlock()
	n.notify()
}

// ArmStall makes the next Write on l park after its bytes are in flight.
func (n *Network) ArmStall(l *Link) {
	n.mu.Lock()
	l.stallArmed = true
	n.mu.Unlock()
}

// ReleaseStall lets one parked writer of l return.
func (n *Network) ReleaseStall(l *Link) bool {
	n.mu.Lock()
	defer n.mu.Unlock()
	if l.stallRelease < l.stallWaiters {
		l.stallRelease++
		n.cond.Broadcast()
		return true
	}
	return false
}

// Tap starts recording everything written to the link.
func (n *Network) Tap(l *Link) {
	n.mu.Lock()
	l.tapOn = true
	n.mu.Unlock()
}

func (n *Network) TapBytes(l *Link) []byte {
	n.mu.Lock()
	defer n.mu.Unlock()
	return append([]byte(nil), l.tap...)
}

// TapAll turns recording on for every link created from now on and existing.
func (n *Network) SetCap(l *Link, cap int) {
	n.mu.Lock()
	l.cap = cap
	n.cond.Broadcast()
	n.mu.Unlock()
}

func (n *Network) Conns() []*Conn {
	n.mu.Lock()
	defer n.mu.Unlock()
	return append([]*Conn(nil), n.allConns...)
}

func (n *Network) Listeners() []*Listener {
	n.mu.Lock()
	defer n.mu.Unlock()
	return append([]*Listener(nil), n.allLsn...)
}

// OpenEndpoints counts endpoints that code under test (or anybody) still holds open.
func (n *Network) OpenEndpoints() (conns, listeners, socks int) {
	n.mu.Lock()
	defer n.mu.Unlock()
	for _, c := range n.allConns {
		if !c.closed {
			conns++
		}
	}
	for _, l := range n.allLsn {
		if !l.closed {
			listeners++
		}
	}
	for _, s := range n.allSocks {
		if !s.closed {
			socks++
		}
	}
	return
}

// CloseAll tears the whole network down (end of a run): every parked call returns.
func (n *Network) CloseAll() {
	n.mu.Lock()
	defer n.mu.Unlock()
	for _, c := range n.allConns {
		c.closed = true
		c.in.rst = true
		c.out.rst = true
		c.rdl.set(n, time.Time{})
		c.wdl.set(n, time.Time{})
	}
	for _, l := range n.allLsn {
		l.closed = true
	}
	for _, s := range n.allSocks {
		s.closed = true
		s.rdl.set(n, time.Time{})
	}
	n.listeners = map[string]*Listener{}
	n.psocks = map[string]*PacketSock{}
	n.flight = nil
	n.down = true
	n.cond.Broadcast()
}
