package simrt

import (
	"crypto/tls"
	"encoding/binary"
	"errors"
	"net"

	"github.com/miekg/dns"
)

// DNSListenAndServe stands in for (*dns.Server).ListenAndServe.
//
// TCP modes run miekg's own serveTCP over a simnet listener (ActivateAndServe
// accepts any net.Listener). miekg's UDP loop insists on a *net.UDPConn, so
// UDP mode runs the small loop below, which mirrors Server.serveUDP /
// serveDNS: header check through MsgAcceptFunc, FORMERR/NOTIMP rejections,
// one goroutine per message, then the *registered handler* — i.e. socketace's
// real handleRequest — with a ResponseWriter that writes to the simnet socket.
func DNSListenAndServe(srv *dns.Server) error {
	if Cur == nil {
		return errNoNetwork
	}
	addr := srv.Addr
	if addr == "" {
		addr = ":domain"
	}
	switch srv.Net {
	case "tcp", "tcp4", "tcp6":
		l, err := Listen(srv.Net, addr)
		if err != nil {
			return err
		}
		srv.Listener = l
		return srv.ActivateAndServe()
	case "tcp-tls", "tcp4-tls", "tcp6-tls":
		if srv.TLSConfig == nil || (len(srv.TLSConfig.Certificates) == 0 && srv.TLSConfig.GetCertificate == nil) {
			return errors.New("dns: neither Certificates nor GetCertificate set in Config")
		}
		network := srv.Net[:len(srv.Net)-4]
		l, err := Listen(network, addr)
		if err != nil {
			return err
		}
		srv.Listener = tls.NewListener(l, srv.TLSConfig)
		return srv.ActivateAndServe()
	case "udp", "udp4", "udp6":
		pc, err := ListenPacket(srv.Net, addr)
		if err != nil {
			return err
		}
		srv.PacketConn = pc
		if srv.NotifyStartedFunc != nil {
			srv.NotifyStartedFunc()
		}
		return serveUDP(srv, pc.(*PacketSock))
	}
	return errors.New("dns: bad network")
}

func serveUDP(srv *dns.Server, sock *PacketSock) error {
	size := srv.UDPSize
	if size == 0 {
		size = dns.MinMsgSize
	}
	// miekg reads into a buffer of UDPSize (default 512) bytes: longer queries
	// are truncated by the kernel and then fail to unpack. Mirror that.
	for {
		buf := make([]byte, size)
		k, from, err := sock.ReadFrom(buf)
		if err != nil {
			if sock.IsClosed() {
				return nil
			}
			if ne, ok := err.(net.Error); ok && ne.Timeout() {
				continue
			}
			return err
		}
		if k < 12 {
			continue
		}
		go serveDNS(srv, buf[:k], &udpResponse{sock: sock, raddr: from})
	}
}

func serveDNS(srv *dns.Server, m []byte, w *udpResponse) {
	dh := dns.Header{
		Id:      binary.BigEndian.Uint16(m[0:]),
		Bits:    binary.BigEndian.Uint16(m[2:]),
		Qdcount: binary.BigEndian.Uint16(m[4:]),
		Ancount: binary.BigEndian.Uint16(m[6:]),
		Nscount: binary.BigEndian.Uint16(m[8:]),
		Arcount: binary.BigEndian.Uint16(m[10:]),
	}
	accept := srv.MsgAcceptFunc
	if accept == nil {
		accept = dns.DefaultMsgAcceptFunc
	}
	req := new(dns.Msg)
	action := accept(dh)
	switch action {
	case dns.MsgAccept:
		if req.Unpack(m) == nil {
			break
		}
		fallthrough
	case dns.MsgReject, dns.MsgRejectNotImplemented:
		opcode := int(dh.Bits>>11) & 0xF
		rep := new(dns.Msg)
		rep.Id = dh.Id
		rep.Response = true
		rep.Opcode = opcode
		rep.Rcode = dns.RcodeFormatError
		if action == dns.MsgRejectNotImplemented {
			rep.Rcode = dns.RcodeNotImplemented
		}
		rep.Zero = false
		w.WriteMsg(rep)
		return
	case dns.MsgIgnore:
		return
	}
	h := srv.Handler
	if h == nil {
		h = dns.DefaultServeMux
	}
	h.ServeDNS(w, req)
}

type udpResponse struct {
	sock  *PacketSock
	raddr net.Addr
}

func (w *udpResponse) LocalAddr() net.Addr  { return w.sock.LocalAddr() }
func (w *udpResponse) RemoteAddr() net.Addr { return w.raddr }
func (w *udpResponse) WriteMsg(m *dns.Msg) error {
	data, err := m.Pack()
	if err != nil {
		return err
	}
	_, err = w.Write(data)
	return err
}
func (w *udpResponse) Write(b []byte) (int, error) { return w.sock.WriteTo(b, w.raddr) }
func (w *udpResponse) Close() error                { return nil }
func (w *udpResponse) TsigStatus() error           { return nil }
func (w *udpResponse) TsigTimersOnly(bool)         {}
func (w *udpResponse) Hijack()                     {}

// ResolvConf stands in for dns.ClientConfigFromFile("/etc/resolv.conf").
func ResolvConf(string) (*dns.ClientConfig, error) {
	if Cur == nil {
		return nil, errNoNetwork
	}
	if len(Cur.resolv) == 0 {
		return nil, errors.New("open /etc/resolv.conf: no such file or directory")
	}
	return &dns.ClientConfig{Servers: append([]string(nil), Cur.resolv...), Port: "53", Ndots: 1, Timeout: 5, Attempts: 2}, nil
}
