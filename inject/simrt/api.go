package simrt

import (
	"context"
	"crypto/tls"
	"errors"
	"io/ioutil"
	"net"
	"strings"
	"time"
)

// Package-level functions with the call shapes of package net / crypto/tls.
// simify rewrites socketace's call sites to these.

var errNoNetwork = errors.New("simrt: no simulated network installed")

func Dial(network, address string) (net.Conn, error) {
	if Cur == nil {
		return nil, errNoNetwork
	}
	return Cur.Dial(network, address, 0)
}

func DialTimeout(network, address string, timeout time.Duration) (net.Conn, error) {
	if Cur == nil {
		return nil, errNoNetwork
	}
	return Cur.Dial(network, address, timeout)
}

func DialContext(ctx context.Context, network, address string) (net.Conn, error) {
	if Cur == nil {
		return nil, errNoNetwork
	}
	var timeout time.Duration
	if dl, ok := ctx.Deadline(); ok {
		timeout = time.Until(dl)
		if timeout <= 0 {
			return nil, context.DeadlineExceeded
		}
	}
	return Cur.Dial(network, address, timeout)
}

func DialUDP(network string, laddr, raddr *net.UDPAddr) (net.Conn, error) {
	if Cur == nil {
		return nil, errNoNetwork
	}
	if raddr == nil {
		return nil, &net.OpError{Op: "dial", Net: network, Err: errors.New("missing address")}
	}
	var la net.Addr
	if laddr != nil {
		la = laddr
	}
	s, err := Cur.dialPacket(network, la, raddr)
	if err != nil {
		return nil, err
	}
	return s, nil
}

func DialTCP(network string, laddr, raddr *net.TCPAddr) (net.Conn, error) {
	if Cur == nil {
		return nil, errNoNetwork
	}
	if raddr == nil {
		return nil, &net.OpError{Op: "dial", Net: network, Err: errors.New("missing address")}
	}
	return Cur.Dial(network, raddr.String(), 0)
}

func Listen(network, address string) (net.Listener, error) {
	if Cur == nil {
		return nil, errNoNetwork
	}
	return Cur.Listen(network, address)
}

func ListenPacket(network, address string) (net.PacketConn, error) {
	if Cur == nil {
		return nil, errNoNetwork
	}
	return Cur.ListenPacket(network, address)
}

func ResolveTCPAddr(network, address string) (*net.TCPAddr, error) {
	switch network {
	case "tcp", "tcp4", "tcp6", "":
	default:
		return nil, net.UnknownNetworkError(network)
	}
	ip, port, err := resolver().resolveHostPort(address)
	if err != nil {
		return nil, err
	}
	a := &net.TCPAddr{IP: net.ParseIP(ip), Port: port}
	if h, _, e := net.SplitHostPort(address); e == nil && h == "" {
		a.IP = nil
	}
	return a, nil
}

func ResolveUDPAddr(network, address string) (*net.UDPAddr, error) {
	switch network {
	case "udp", "udp4", "udp6", "":
	default:
		return nil, net.UnknownNetworkError(network)
	}
	ip, port, err := resolver().resolveHostPort(address)
	if err != nil {
		return nil, err
	}
	a := &net.UDPAddr{IP: net.ParseIP(ip), Port: port}
	if h, _, e := net.SplitHostPort(address); e == nil && h == "" {
		a.IP = nil
	}
	return a, nil
}

// resolver returns the current network, or a static one (IP literals and
// "localhost" only) for package-initialisation-time calls made before any run.
func resolver() *Network {
	if Cur != nil {
		return Cur
	}
	return staticNet
}

var staticNet = NewNetwork()

func ResolveIPAddr(network, address string) (*net.IPAddr, error) {
	if ip := net.ParseIP(address); ip != nil {
		return &net.IPAddr{IP: ip}, nil
	}
	r := resolver()
	r.mu.Lock()
	ip, ok := r.hosts[strings.ToLower(address)]
	r.mu.Unlock()
	if !ok {
		return nil, &net.DNSError{Err: "no such host", Name: address, IsNotFound: true}
	}
	return &net.IPAddr{IP: net.ParseIP(ip)}, nil
}

// TLSDial mirrors crypto/tls.Dial: the expected server name defaults to the
// host part of addr exactly as tls.DialWithDialer derives it.
func TLSDial(network, addr string, config *tls.Config) (*tls.Conn, error) {
	raw, err := Dial(network, addr)
	if err != nil {
		return nil, err
	}
	colonPos := strings.LastIndex(addr, ":")
	if colonPos == -1 {
		colonPos = len(addr)
	}
	hostname := addr[:colonPos]
	if config == nil {
		config = &tls.Config{}
	}
	if config.ServerName == "" {
		c := config.Clone()
		c.ServerName = hostname
		config = c
	}
	conn := tls.Client(raw, config)
	if err := conn.Handshake(); err != nil {
		raw.Close()
		return nil, err
	}
	return conn, nil
}

// Dialer stands in for net.Dialer where socketace passes one to tls.DialWithDialer.
type Dialer struct {
	Timeout  time.Duration
	Deadline time.Time
}

// Dial mirrors (*net.Dialer).Dial: Timeout is relative to the call, Deadline is an absolute point in time, the
// earlier of the two bounds the connect.
func (d *Dialer) Dial(network, address string) (net.Conn, error) {
	var deadline time.Time
	if d.Timeout > 0 {
		deadline = time.Now().Add(d.Timeout)
	}
	if !d.Deadline.IsZero() && (deadline.IsZero() || d.Deadline.Before(deadline)) {
		deadline = d.Deadline
	}
	if deadline.IsZero() {
		return Dial(network, address)
	}
	left := time.Until(deadline)
	if left <= 0 {
		return nil, &net.OpError{Op: "dial", Net: network, Err: errDialTimeout{}}
	}
	return DialTimeout(network, address, left)
}

type errDialTimeout struct{}

func (errDialTimeout) Error() string   { return "i/o timeout" }
func (errDialTimeout) Timeout() bool   { return true }
func (errDialTimeout) Temporary() bool { return true }

// TLSDialWithDialer mirrors crypto/tls.DialWithDialer: the dialer's timeout
// covers the connect and the TLS handshake together.
func TLSDialWithDialer(dialer *Dialer, network, addr string, config *tls.Config) (*tls.Conn, error) {
	var deadline time.Time
	if dialer != nil {
		if dialer.Timeout > 0 {
			deadline = time.Now().Add(dialer.Timeout)
		}
		if !dialer.Deadline.IsZero() && (deadline.IsZero() || dialer.Deadline.Before(deadline)) {
			deadline = dialer.Deadline
		}
	}
	if deadline.IsZero() {
		return TLSDial(network, addr, config)
	}
	raw, err := DialTimeout(network, addr, time.Until(deadline))
	if err != nil {
		return nil, err
	}
	colonPos := strings.LastIndex(addr, ":")
	if colonPos == -1 {
		colonPos = len(addr)
	}
	hostname := addr[:colonPos]
	if config == nil {
		config = &tls.Config{}
	}
	if config.ServerName == "" {
		c := config.Clone()
		c.ServerName = hostname
		config = c
	}
	conn := tls.Client(raw, config)
	raw.SetDeadline(deadline)
	if err := conn.Handshake(); err != nil {
		raw.Close()
		return nil, err
	}
	raw.SetDeadline(time.Time{})
	return conn, nil
}

// TLSListen mirrors crypto/tls.Listen.
func TLSListen(network, laddr string, config *tls.Config) (net.Listener, error) {
	if config == nil || len(config.Certificates) == 0 &&
		config.GetCertificate == nil && config.GetConfigForClient == nil {
		return nil, errors.New("tls: neither Certificates, GetCertificate, nor GetConfigForClient set in Config")
	}
	l, err := Listen(network, laddr)
	if err != nil {
		return nil, err
	}
	return tls.NewListener(l, config), nil
}

// DiskLatency is the simulated time a file read takes. Under testing/synctest the sleep is a durable
// block on the fake clock: every other goroutine runs meanwhile, as it would during real disk I/O.
var DiskLatency = 2 * time.Millisecond

// ReadFile stands in for ioutil.ReadFile / os.ReadFile in the rewritten copy.
func ReadFile(name string) ([]byte, error) {
	if DiskLatency > 0 {
		time.Sleep(DiskLatency)
	}
	if f := ReadFault; f != nil {
		if err := f(name); err != nil {
			return nil, err
		}
	}
	if b, ok := VirtualFiles[name]; ok {
		// the simulated disk: no system call (a goroutine inside a blocking system call may hand its
		// processor to another thread, which lets the Go scheduler reorder the goroutines of a run)
		return append([]byte(nil), b...), nil
	}
	return ioutil.ReadFile(name)
}

// VirtualFiles is the simulated disk: files the simulator has written, by path.
var VirtualFiles = map[string][]byte{}

// ReadFault, when set by the simulator, is asked before every file read; a non-nil error is what the read
// returns (an unreadable or vanished file, a disk error).
var ReadFault func(name string) error

var reinit []func()

// RegisterReinit is called from generated init functions of the rewritten copy (see simify: package-level
// channels). ReinitGlobals runs them; the simulator calls it inside each run's bubble before the world is built.
func RegisterReinit(f func()) { reinit = append(reinit, f) }

func ReinitGlobals() {
	for _, f := range reinit {
		f()
	}
}
