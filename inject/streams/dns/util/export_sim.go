package util

// Injected by /verif/simify into the scratch copy only (never part of /repo).

// SimFutureLen returns how many out-of-order packets the queue is holding for later. Called at
// quiescent points only.
func (q *InQueue) SimFutureLen() int { return len(q.future) }
