package dns

import "net"

// Injected by /verif/simify into the scratch copy only (never part of /repo).
// Lets the harness choose the starting packet sequence numbers of a tunnel
// connection ("all starting sequence numbers" in the property's quantifier),
// so that the 16-bit wrap is crossed within a few hundred packets.

// SimSetSeq sets the next outgoing and the next expected incoming sequence number.
func (dc *ClientDnsConnection) SimSetSeq(out, in uint16) {
	dc.out.NextSeqNo = out
	dc.in.NextSeqNo = in
}

// SimNextSeq returns the next outgoing and the next expected incoming sequence number (what a
// worst-case spoofer would have to guess).
func (dc *ClientDnsConnection) SimNextSeq() (out, in uint16) {
	return dc.out.NextSeqNo, dc.in.NextSeqNo
}

// SimUserId returns the session identifier the server assigned.
func (dc *ClientDnsConnection) SimUserId() uint16 { return dc.userId }

// SimSetServerSeq does the same for a connection returned by ServerDnsListener.Accept.
func SimSetServerSeq(conn net.Conn, out, in uint16) bool {
	u, ok := conn.(*userConnection)
	if !ok {
		return false
	}
	u.out.NextSeqNo = out
	u.in.NextSeqNo = in
	return true
}

// SimServerUserId returns the identifier of a server-side connection.
func SimServerUserId(conn net.Conn) (uint16, bool) {
	u, ok := conn.(*userConnection)
	if !ok {
		return 0, false
	}
	return u.UserId, true
}

// SimLiveConns returns the server-side connections of the live sessions. Called at quiescent
// points only.
func (s *ServerDnsListener) SimLiveConns() []net.Conn {
	var out []net.Conn
	for _, u := range s.connections {
		if u != nil {
			out = append(out, u)
		}
	}
	return out
}

// SimServerHeldPackets returns how many out-of-order packets a server-side connection is holding
// for later. Called at quiescent points only.
func SimServerHeldPackets(conn net.Conn) (int, bool) {
	u, ok := conn.(*userConnection)
	if !ok {
		return 0, false
	}
	return u.in.SimFutureLen(), true
}
