# Per-property configuration of the checks: tiers, claimed level, what counts as non-trivial.
PROPS = {
    "C01": {
        "level": "exploration",
        "rule": ("each run draws carrier x security x listener kind x socket-buffer bound x 1-3 sequential logical connections x "
                 "direction x payload sizes (boundary set 1,4095..65537 or log-uniform up to the tier cap) x write partition x delivery "
                 "chunking from one seeded choice stream; non-trivial = at least one connection moved >0 bytes end to end; distinct = "
                 "distinct schedule shapes (hash of the sequence of event kinds with sizes bucketed)"),
        "probes": ["connections_completed", "connections_with_think_time", "runs_with_concurrent_connections", "fault_segmentation"],
        "technique": "deterministic simulation: seeded search over payload x write partition x delivery chunking x carrier, PRF byte-stream oracle",
        "level_text": ("Seeded exploration of whole-system worlds (real client + real server + real dependencies on a simulated network and clock): "
                       "every byte received at either boundary is checked against a position-addressable PRF stream, so loss, duplication, reordering "
                       "or alteration is caught at the first bad byte; exploration is the right level because payload x segmentation x carrier is unbounded."),
        "level_note": "Trusts the simify rewrite (audited each build), the simulated socket semantics (blocking stream sockets with bounded buffers, datagram sockets), and sampling; datagram loss is only injected on carriers specified to mask it (KCP).",
        "tiers": {
            "quick": {"runs": 24000, "chunk": 500, "shrink_s": 40},
            "thorough": {"runs": 300000, "chunk": 500, "shrink_s": 120},
        },
    },
}

PROPS["C02"] = {
    "level": "exploration",
    "rule": ("each run opens k in 2..6 logical connections (two channels, one physical session) in driver-chosen order with modes "
             "active / idle / paused-application-reader / paused-target-reader / closing in mid-transfer (either side) / asking for a channel the server refuses, payloads, write partitions, socket-buffer bounds, delivery "
             "chunking and (1 run in 8) a write-completion stall on the client's physical link while a stream is being opened; "
             "non-trivial = all non-paused connections completed while the others were still open (>= 2 open at once); distinct = schedule shapes"),
    "probes": ["concurrent_worlds_completed", "runs_with_a_crowd_of_connections", "connections_opened_together", "lingering_runs", "heavy_paused_reader", "fault_write_stall_armed", "fault_segmentation", "hanging_connects_among_live_connections", "failed_connections_before_the_others"],
    "technique": "deterministic simulation: seeded search over interleavings of k concurrent logical connections, per-connection PRF attribution, bounded-progress oracle",
    "level_text": ("Seeded exploration of interleavings: the driver decides the order of opens, writes, pauses and every delivery across k connections sharing "
                   "one session; isolation is decided by per-connection PRF streams (a foreign byte is attributed to its owner), independence by "
                   "requiring every non-paused connection to complete within 30 simulated minutes and never sit 60 s with nothing deliverable while others are open/idle/paused."),
    "level_note": "Trusts simify, simnet socket semantics (bounded buffers give real back-pressure), sampling. Paused readers hold <= 512 KiB, well under the multiplexer's shared 4 MiB buffer the property excludes.",
    "tiers": {
        "quick": {"runs": 12000, "chunk": 300, "shrink_s": 40},
        "thorough": {"runs": 120000, "chunk": 400, "shrink_s": 120},
    },
}

PROPS["C14"] = {
    "level": "exploration",
    "rule": ("each run builds a world on a drawn carrier, records the idle footprint, runs N then N more logical connections (N in 3..8 quick, 5..40 thorough; "
             "up to 3 overlapping; either side closing first), compares the footprint after 2N with the one after N, then ends the physical session in a drawn "
             "manner (client shutdown, carrier reset, garbage frame, partition until the multiplexer keep-alive gives up, or not at all) and compares with idle; "
             "footprint = goroutines of the bubble grouped by creation site (harness excluded) + open simulated sockets/listeners; non-trivial = both batches "
             "completed; distinct = schedule shapes"),
    "probes": ["logical_connections", "connections_open_at_session_end", "runs_with_a_crowd_of_connections", "refused_connections", "silent_peers", "runs_with_scheduling_points", "session_end_checked", "fault_carrier_reset", "fault_carrier_timeout", "fault_partition", "fault_garbage_frame", "end_client_shutdown", "end_server_closes", "session_lost_mid_history", "history_incomplete", "history_incomplete_known_smux_race", "partitions_with_a_write_in_flight", "silent_peers_after_the_announcement", "silent_peers_lost_without_a_trace", "silent_logical_connections", "fault_partition_for_ever"],
    "technique": "deterministic simulation: histories of N and 2N connections and fault-ended sessions, resource-ledger oracle + busy-loop detector",
    "level_text": ("Seeded exploration of connection histories and session endings. The oracle is a resource ledger taken at quiescent points after a drain of 150 "
                   "simulated seconds: constant (not linear) in the number of past connections, back to idle after the session ended, and no goroutine that emits "
                   "the same log entry 2000 times without blocking (busy loop on a dead session)."),
    "level_note": "Goroutines are attributed by creation site from a runtime stack dump restricted to the run's synctest bubble; sockets are simnet endpoints. CPU use is judged by the spin detector (logging loops) and the orchestrator's watchdog (silent loops), not by timing.",
    "tiers": {
        "quick": {"runs": 8000, "chunk": 80, "shrink_s": 40},
        "thorough": {"runs": 30000, "chunk": 100, "shrink_s": 120},
    },
}

PROPS["C17"] = {
    "level": "exploration",
    "rule": ("each run draws carrier x security x closer (application or target) x payload written before the close (0 bytes .. tier cap, boundary sizes) x write partition x "
             "whether the other side writes too x 0-2 background connections x socket-buffer bound x delivery chunking; the close is an ordinary driver event, so it races the "
             "last write's frames, the FIN and the opposite direction freely; non-trivial = the close took effect and the other end's outcome was judged; distinct = schedule shapes"),
    "probes": ["closes_observed", "clean_eof", "runs_with_think_time", "runs_with_closing_neighbour", "runs_with_a_crowd_of_neighbours", "fault_segmentation", "runs_over_the_forward_address", "runs_with_a_heavy_paused_neighbour", "runs_with_a_refused_neighbour"],
    "technique": "deterministic simulation: seeded search over close/last-write/FIN orderings per carrier, all-bytes-then-EOF oracle with bounded termination",
    "level_text": ("Seeded exploration: the non-closing end must read exactly the PRF stream the closer wrote and then end-of-stream, within 10 simulated minutes (30 over DNS) and never "
                   "sit 90 s with nothing deliverable; a shorter stream, an error instead of end-of-stream, or no termination are distinct rules."),
    "level_note": "Socket model: data and FIN sent before a reset are delivered in order and a reader that has the FIN sees end-of-stream (Linux semantics). Full close only (socketace has no half-close).",
    "tiers": {
        "quick": {"runs": 16000, "chunk": 400, "shrink_s": 40},
        "thorough": {"runs": 200000, "chunk": 500, "shrink_s": 120},
    },
}

PROPS["C03"] = {
    "level": "exploration",
    "rule": ("each run generates a channel table of 1-5 names from a confusable alphabet (a, ab, a/b, A, 'a ', empty, long, non-ASCII ...), each bound to its own recording target, "
             "an endpoint allow-list (none or a subset; for websocket servers a second path with its own list), and 1-6 requests (configured, unlisted, unknown, prefix/extension/"
             "case variants, empty) issued concurrently over one session on a drawn server kind; non-trivial = every request was judged against the routing model; distinct = schedule shapes"),
    "probes": ["routed_ok", "refusals_observed", "requests_made_together", "slow_targets", "stale_allow_lists", "server_refused_stale_configuration", "worlds_with_two_dns_endpoints", "worlds_with_targets_by_host_name"],
    "technique": "deterministic simulation: generated channel tables/allow-lists/requests, concurrent requests, 10-line routing reference model vs target accept logs",
    "level_text": ("Seeded exploration against a reference routing function (exact, case-sensitive match within the endpoint's filtered list): each request must reach exactly the predicted "
                   "target (identified by PRF stream content, so a wrong target is named) or be refused with end-of-stream/reset and no data; every target's accept count must equal the predicted multiset."),
    "level_note": "Fault-free network class only. Requested names are what the client's listener flag syntax can express (it trims surrounding blanks). Duplicate channel names are not generated (the property does not define them).",
    "tiers": {
        "quick": {"runs": 24000, "chunk": 300, "shrink_s": 40},
        "thorough": {"runs": 200000, "chunk": 500, "shrink_s": 120},
    },
}

PROPS["C15"] = {
    "level": "fault_enumeration",
    "exhaustive": True,
    "cells": 87,
    "rule": ("the table stall point {after connect, inside the first request line, between the two requests, inside a TLS hello, inside the StartTLS hello after a 101, after the upgrade} x behaviour {silent, one byte per 10 s, "
             "garbage then silent} x endpoint kind {tcp, unix, tcp+tls, ws, wss, udp/KCP, dns+udp, dns+tcp} (87 meaningful cells) is enumerated completely by run index; per run the number "
             "of stallers (1-3), of well-behaved clients (1-3, each a separate client command), their arrival order and every delivery are sampled; non-trivial = every well-behaved "
             "client finished while the stallers stayed connected; distinct = schedule shapes"),
    "probes": ["stallers_started", "runs_with_a_crowd_of_stallers", "late_arrivals", "fault_staller_host_vanished", "good_clients_served"],
    "technique": "deterministic simulation: enumerated stall faults by scripted peers at every handshake step and endpoint kind, sampled arrivals, bounded-latency oracle for well-behaved clients",
    "level_text": ("Fault enumeration: the finite table of stall points, behaviours and endpoint kinds is covered completely (several runs per cell with different arrivals and counts); each "
                   "well-behaved client must complete handshake and a 1 KiB exchange within 60 simulated seconds of connecting while the stalled peers remain connected."),
    "level_note": "Stallers are harness goroutines speaking the real transports (raw sockets, real TLS client, real gorilla websocket client, real KCP session, real DNS-tunnel client handshake). No bound is applied to the stallers themselves.",
    "tiers": {
        "quick": {"runs": 87 * 60, "chunk": 87, "shrink_s": 40},
        "thorough": {"runs": 87 * 1000, "chunk": 348, "shrink_s": 120},
    },
}

PROPS["C16"] = {
    "level": "exploration",
    "rule": ("each run generates an upstream list of 1-4 entries of kinds {tcp, unix, tcp+tls, ws, udp}, each healthy or failing in one manner {refused, black-holed connect, accepts and stays "
             "silent, silent after the first answer, silent inside the StartTLS handshake, error status, no security while the client requires it}, a listener with forward address {absent, reachable, refused}, 1-3 concurrent local connections, then a history "
             "{none, carrier reset, silent loss, server crash+restart} followed by new local connections; non-trivial = the selection/forward/refusal outcome was judged; distinct = schedule shapes"),
    "probes": ["failover_settled", "forward_direct", "all_failing_refused", "reconnect_ok", "loss_with_open_connections", "connections_opened_together", "insecure_upstream_skipped", "fault_carrier_reset", "fault_carrier_timeout", "fault_partition", "fault_server_restart", "client_verifies_certificates", "selected_upstream_gone_after_loss", "failover_after_selected_upstream_gone", "failover_to_differently_named_upstream", "refused_after_every_upstream_gone", "session_kept_after_reconnect", "forward_direct_later"],
    "technique": "deterministic simulation: generated upstream lists x failure modes x session-loss histories, accept-log/physical-connection-count/recovery-bound oracles",
    "level_text": ("Seeded exploration. Oracles: the forward target gets the connection and no upstream is contacted when the forward address is reachable; otherwise the first healthy entry that "
                   "meets the security requirement carries the session, later entries are never contacted, exactly one physical connection exists for all concurrent logical connections, "
                   "each failing entry costs at most its allowance (130 s for an unanswered connect = the OS connect timeout, 120 s for a silent peer, 5 s otherwise), and after a session "
                   "loss new local connections are served over exactly one new physical connection within the same allowance."),
    "level_note": "Black-holed TCP connects fail after 127 simulated seconds (Linux SYN retry default), which is outside socketace's control. Failing endpoints are scripted listeners; healthy ones are real server endpoints. Silent loss is followed by 95 s so that the keep-alive can notice it.",
    "tiers": {
        "quick": {"runs": 18000, "chunk": 450, "shrink_s": 40},
        "thorough": {"runs": 300000, "chunk": 500, "shrink_s": 120},
    },
}

PROPS["C05"] = {
    "level": "fault_enumeration",
    "exhaustive": True,
    "cells": 675,
    "rule": ("the complete matrix {server certificate: trusted+matching, trusted+wrong host, untrusted CA, expired, valid for only 200 s more (must be accepted), valid only in 200 s (must be refused)} x {client --insecure on/off} x {client certificate: none, server's CA, foreign CA, impostor CA (same subject name as the server's CA, other key - the case in which a stock TLS client does send the certificate)} x "
             "{requireClientCert on/off} x carrier {TLS socket, HTTPS websocket, StartTLS over socket / websocket / UDP(KCP) / DNS} (576 cells) plus {equal, different, absent} UDP secrets is "
             "enumerated by run index; per run the upstream is named by host name or IP literal (with a certificate naming exactly that), an unreachable decoy upstream naming another host may be listed first (none / tcp+tls / wss / tcp), and delivery segmentation is sampled; non-trivial = the "
             "cell's outcome matched the admit/reject table; distinct = schedule shapes"),
    "probes": ["admitted_as_expected", "rejected_as_expected", "admitted_again_after_session_loss", "rejected_again_on_second_attempt", "fault_carrier_reset", "fault_server_restart", "upstreams_without_a_host_part", "certificate_files_renewed"],
    "technique": "deterministic simulation: complete authentication matrix under simulated clock (certificate expiry) and network, admit/reject table from the property text, no-application-byte-on-reject oracle",
    "level_text": ("Fault enumeration over the finite authentication matrix, each cell run in a whole-system world with real crypto/tls: admit iff (--insecure or chain+name+validity) and "
                   "(no requirement or client certificate of the server's CA); UDP admits iff secrets equal. On reject no target may accept a connection or receive a byte; on admit a 64-byte exchange must complete."),
    "level_note": "PKI generated deterministically at worker start for the simulated epoch 2000-01-01; 'expired' is produced by the simulated clock. The documented stdio+tls exception is not part of the matrix.",
    "tiers": {
        "quick": {"runs": 675 * 24, "chunk": 225, "shrink_s": 30},
        "thorough": {"runs": 675 * 200, "chunk": 675, "shrink_s": 90},
    },
}

PROPS["C06"] = {
    "level": "exploration",
    "rule": ("each run draws a role (server or client), an input from a grammar with classes VALID / INVALID / AMBIGUOUS (valid exchanges with header order/case/extra-header/version-list variants; "
             "truncated at any byte; wrong methods; zero/unsupported/multiple versions; wrong or missing Upgrade/Connection tokens; malformed request or status lines; oversized blocks; bare LF, "
             "folding, NUL, 8-bit; binary noise; single-byte mutations of valid exchanges; pipelined following bytes) and feeds the same bytes to the real handshake code under 4 segmentations "
             "(coalesced, byte-at-a-time, random cuts, cuts near line ends); non-trivial = all four outcomes obtained and judged; distinct = schedule shapes"),
    "probes": ["established", "refused", "runs_with_an_earlier_connection"],
    "technique": "deterministic simulation: grammar+mutation inputs x driver-chosen segmentations against the real handshake code; acceptance model, metamorphic equality across segmentations, process survival",
    "level_text": ("Seeded exploration of the unbounded input space with three oracles: (1) a session is established iff the input was built as VALID (for ambiguous inputs: established implies an "
                   "independent 40-line parser accepts it), and the bytes following a valid handshake reach the next layer unaltered; (2) established flag, status/request lines written and the next-layer bytes "
                   "are identical across segmentations; (3) the worker process survives (a panic is reported as rule 'crash' by the orchestrator)."),
    "level_note": "Handshake code runs directly (socketace.NewServerConnection / NewClientConnection) over a simnet pipe with a scripted peer; no StartTLS certificate on the server side (C04 covers StartTLS).",
    "tiers": {
        "quick": {"runs": 24000, "chunk": 600, "shrink_s": 30},
        "thorough": {"runs": 600000, "chunk": 2000, "shrink_s": 90},
    },
}

PROPS["C04"] = {
    "level": "fault_enumeration",
    "exhaustive": True,
    "cells": 120,
    "rule": ("three finite tables enumerated by run index (120 cells): (a) whole-system matrix {carrier: tcp, unix, tcp+tls, unix+tls, ws, wss, stdio, stdio+tls, udp, udp+password} x {server has a "
             "certificate} x {client -s} x {client -k} with a recording tap on every carrier link and datagram; (b) real client, with and without -s, against a scripted server deviating at exactly one "
             "handshake step {capability omitted / altered / duplicated, 101 then plaintext multiplexer, 101 then garbage, upgrade answered 200 / 403 / 503, announce answered 500, TLS alert, "
             "101 without headers, honest plaintext} over tcp and unix; (c) real +tls / https endpoint against a scripted client speaking plaintext in 4 ways; delivery segmentation is sampled; "
             "non-trivial = the cell's oracle was evaluated; distinct = cells x schedule shapes"),
    "probes": ["sessions_established", "sessions_refused", "plaintext_session_observed", "deviation_refused", "plaintext_client_refused", "second_sessions_established", "fault_carrier_reset", "fault_server_restart", "fault_file_read_error"],
    "technique": "deterministic simulation: enumerated security matrix and enumerated byzantine peer deviations, wire-tap oracle (payload windows never in clear on a protected session)",
    "level_text": ("Fault enumeration. Payloads are high-entropy PRF streams; six 24-byte windows of each are searched in everything that crossed the carrier. On a session that must be protected "
                   "(client -s, encrypted carrier, or StartTLS on offer) no window may appear; with StartTLS on offer an established session must report tls on the client and have been upgraded on "
                   "the server; a client started with -s must neither open a logical stream nor emit payload after any server deviation, and must disconnect the local application; a TLS endpoint "
                   "must never let a plaintext client reach a target. Control cells (legitimately plaintext sessions) must show the payload on the wire, which validates the observer."),
    "level_note": "Server-side StartTLS state is observed through the server's own log line; client-side state through ClientConnection.Secure()/SecurityTech() (reached with an injected accessor in the scratch copy only). The scripted server runs real smux + multistream after its fake handshake so that a wrongly trusting client would really send data.",
    "tiers": {
        "quick": {"runs": 120 * 160, "chunk": 120, "shrink_s": 30},
        "thorough": {"runs": 120 * 1500, "chunk": 1200, "shrink_s": 90},
    },
}

PROPS["C19"] = {
    "level": "exploration",
    "rule": ("each run generates a composition tree of depth <= 4 from {Safe, Named} x {Connection, Stream, Reader, Writer}, ReadWriteCloser(reader, writer), SimulatedConnection, "
             "StreamWrappedConnection and BufferedInputConnection (including re-wrapping an already-safe wrapper) over counting fake resources with a drawn fault (close fails once / always, "
             "read/write fail or are short, already closed), then a sequential history of up to 14 calls {Close, Closed, Read, Write, String, TryClose, LogClose} addressed to any wrapper of the tree; "
             "non-trivial = at least one call was made; distinct = composition x call sequence"),
    "probes": ["closes_checked", "status_checked", "owner_closes_of_borrowed_connection", "writes_left_in_flight"],
    "technique": "deterministic simulation (degenerate: callers as nodes, the wrapped resource as the faulty disk): generated wrapper trees x call histories x failing resource, close-ledger oracle",
    "level_text": ("Seeded exploration with a close ledger: every fake resource is closed at most once at all times and exactly once after a Close on any wrapper above it; a repeated Close returns nil; "
                   "a first Close returns nil unless a resource below fails; Closed() is true on a wrapper that was closed and false while nothing in its chain was; a connection merely borrowed by "
                   "StreamWrappedConnection is never closed. Histories are sequential, as the property's quantifier says."),
    "level_note": "No clock, network or scheduling is involved in this property; the only fault dimension is the failing underlying resource. The same chooser/shrinker as elsewhere yields minimal histories.",
    "tiers": {
        "quick": {"runs": 200000, "chunk": 5000, "shrink_s": 20},
        "thorough": {"runs": 2400000, "chunk": 20000, "shrink_s": 60},
    },
}

PROPS["C07"] = {
    "level": "exploration",
    "rule": ("two run kinds. queue level (60%): the real OutQueue and InQueue joined by a driver-owned channel performing the tunnel's stop-and-wait exchange, with a per-exchange fate {delivered, "
             "query lost, answer lost, query duplicated, old query replayed, late (old) acknowledgement}, drawn start sequence number (0, just before the 16-bit wrap, anywhere, 65535), fragment size and "
             "write partition, and (1 run in 40 quick / 12 thorough) a stream of more than 70 000 one-byte packets; connection level (40%): real ClientDnsConnection and ServerDnsListener over "
             "simulated UDP with the real miekg exchange and timeouts, handshake on a clean path, then concurrent writes both ways under datagram loss / duplication / reordering / late delivery / "
             "replay of old queries, classes clean, isolated-loss (at least 8 fault-free deliveries between faults) and heavy (which may include path outages of 8-40 s, long enough for a Write to fail, after which the writer carries on from the accepted count), then a fault-free drain; non-trivial = the run reached its final "
             "judgement; distinct = schedule shapes"),
    "probes": ["queue_exchanges", "conn_bytes_moved", "many_fragment_writes", "runs_with_concurrent_duplicates", "sequence_wrap_crossed", "sequence_wrap_region", "fault_query_lost", "fault_answer_lost", "fault_query_dup",
               "fault_old_query_replayed", "fault_late_answer", "fault_dgram_loss", "fault_dgram_dup", "fault_delay", "fault_outage", "write_then_close_delivered", "lock_preemptions", "write_then_close_with_lagging_reader"],
    "technique": "deterministic simulation: seeded search over per-exchange fates x writes/reads both ways, sequence wrap via start numbers and long streams, PRF prefix / exactly-once / acknowledged-implies-delivered / absorption / termination oracles",
    "level_text": ("Seeded exploration of fault histories. Every byte read is checked against the position-addressable PRF stream of what the peer's Write calls accepted (gap, repeat and reorder "
                   "are caught at the first bad byte); after the drain everything a successful Write accepted must have been read and every Write must have returned; in the isolated-loss class "
                   "no Write may fail and the connection must stay open (losses absorbed by retransmission)."),
    "level_note": "Starting sequence numbers are installed through an accessor injected into the scratch copy only, before any packet or acknowledgement is exchanged. Queue-level runs replace the DNS transport by the driver; connection-level runs use the real transport code over simnet datagrams.",
    "tiers": {
        "quick": {"runs": 21600, "chunk": 200, "shrink_s": 40, "stall_s": 300},
        "thorough": {"runs": 80000, "chunk": 300, "shrink_s": 120, "stall_s": 300},
    },
}

PROPS["C11"] = {
    "level": "exploration",
    "rule": ("each run draws a DNS path behaviour from the family {transparent; lower/upper/random case of query names; 7-bit names (strip, replace, refuse); a subset of the eight record types "
             "answered, others SERVFAIL / NOTIMP / empty NOERROR; answer size limit 512..8192 with drop or truncation; EDNS0 stripped; host names inside answers lower-cased} combined swarm-style, "
             "plus optional light loss, realised as a middlebox that unpacks every datagram with the real miekg codec, transforms it and re-packs it; the real client Handshake runs against the "
             "real server through it; on success a transfer phase over the same path sends 1 byte .. several fragments both ways (sizes at fragment boundaries) with content that changes style "
             "every 512 bytes (random, zero runs, 0xFF runs, CRLF text, repeated byte, all 256 values, mixed-case letters); non-trivial = handshake returned (and, if nil, the transfer was judged); "
             "distinct = path x negotiated parameters"),
    "probes": ["handshakes_terminated", "handshakes_succeeded", "handshakes_failed", "transfers_completed", "path_name_mangled", "path_type_refused", "path_answer_too_big", "path_8bit_refused", "path_transient_servfail", "path_transient_loss"],
    "technique": "deterministic simulation: swarm of DNS path behaviours (middlebox fault model) x real handshake, termination bound + success-implies-fidelity-on-the-same-path oracle",
    "level_text": ("Seeded exploration over a path-behaviour family. Termination: Handshake returns within 30 simulated minutes on every path. Soundness of success: if it returned nil, data sent both ways "
                   "over the same path must arrive intact (PRF prefix/equality) and completely within 40 simulated minutes; a handshake error is an allowed outcome."),
    "level_note": "The path model transforms whole messages (names, sections, sizes); it does not model resolver caching or recursion delays. Handshake failure on a hostile path is never a violation.",
    "tiers": {
        "quick": {"runs": 60000, "chunk": 150, "shrink_s": 40, "stall_s": 300},
        "thorough": {"runs": 600000, "chunk": 250, "shrink_s": 120, "stall_s": 300},
    },
}

PROPS["C12"] = {
    "level": "exploration",
    "oom_is_violation": True,
    "rule": ("each run establishes a real DNS-tunnel session that transfers data both ways, and meanwhile attacks one side: the server receives 1-12 generated queries from a foreign address or "
             "from the session's own address (names: root, ordinary lookups under and outside the domain, 1-3 character names, every command letter in both cases with valid / out-of-range / "
             "non-base-36 user ids, empty / short / maximum-label / high-byte bodies, extreme size fields, header-only, and mutations of the session's own captured queries; 14 query types, 3 "
             "classes); or the client's genuine answers are replaced (same id) by hostile ones (no records, truncated, records shorter than their order tag, empty strings, root targets, mixed "
             "types with foreign names, error rcodes, missing question, dropped/duplicated records, payload cut short, a correctly wrapped payload of another command, or the genuine answer re-encoded with lying fields: probe sizes up to 2^32-1 over a short body, out-of-range identifiers, wild sequence numbers) - after the handshake, or while the handshake's version / codec / fragment-size probes are running; every hostile answer and every injected query is delivered at a quiescent point and the allocation it causes is bounded (64 MiB); non-trivial = the run reached its final judgement; distinct = message-kind sequences"),
    "probes": ["injected_queries", "user_table_fills", "hostile_answers", "hostile_handshake_answers", "handshakes_survived_hostile_answers", "sessions_intact", "repeated_future_packets", "retention_bounded", "queries_during_start_up"],
    "technique": "deterministic simulation: message injection into live sessions (structured + mutational generators), process-survival / allocation-bound / session-unaffected oracles",
    "level_text": ("Seeded exploration; the all-messages quantifier is sampled, not enumerated. Oracles: the worker process survives (a panic or a multi-GiB allocation under ulimit is reported with "
                   "its stack as rule crash / unbounded-allocation by the orchestrator); a single injected query makes the server allocate less than 64 MiB (the repaired server's worst case for a 16 KiB probe answer in 14-byte AAAA records is about 15 MiB; the defect this guards against allocated up to 4 GiB) and its handler finishes within the "
                   "same quiescence phase; the established session's streams still satisfy the PRF oracle and complete, with unchanged identifiers (for replaced answers, which are also a lost "
                   "genuine answer, completion is not demanded, integrity is)."),
    "level_note": "Allocation is measured as the TotalAlloc delta across one quiescence phase with the collector off. Queries the miekg accept function rejects (QR bit, opcode, question count) never reach socketace, as in production.",
    "tiers": {
        "quick": {"runs": 12000, "chunk": 125, "shrink_s": 30, "stall_s": 300},
        "thorough": {"runs": 60000, "chunk": 200, "shrink_s": 90, "stall_s": 300},
    },
}

PROPS["C13"] = {
    "level": "exploration",
    "rule": ("each run has one real DNS-tunnel server and 2-4 client sessions (distinct source addresses, sometimes a new address on reopen) and draws a history of 3-12 operations from {open / "
             "reopen (real handshake), close, go silent (all its datagrams dropped), clock runs 1 / 6 / 31 / 40 simulated minutes while live sessions keep polling (the 1-minute prune task, the "
             "5-minute stale timeout and the 30-minute old-session timeout all fire), spoofed request {packet with data and plausible or arbitrary sequence numbers, poll with ack, close, fragment "
             "probe, set fragment size} carrying a live or closed session's identifier from a foreign address or (for closed sessions) the old address}; after every operation all sessions that "
             "have been exchanging data continuously move fresh data both ways; non-trivial = the whole history was judged; distinct = histories"),
    "probes": ["sessions_opened", "session_table_filled", "fault_handshake_outage", "opens_aligned_with_prune_tick", "sessions_from_a_reused_address", "late_closes_of_retired_connections", "sessions_closed", "sessions_silenced", "fault_clock_jump", "spoofed_messages", "spoofs_rejected", "history_ops", "stalled_acceptor_histories", "reordered_pipelined_packets"],
    "technique": "deterministic simulation: histories of k sessions x clock jumps x spoofed messages against the real DNS server, session-table model (distinct ids, per-session PRF streams, spoof rejection, survival across expiry and slot reuse)",
    "level_text": ("Seeded exploration of session histories under a simulated clock. Oracles: live sessions hold pairwise distinct identifiers; every session's streams carry only its own peer's PRF "
                   "data; a spoofed message from a foreign address is answered with an error, never with session data, and the victim's following transfer completes unaltered; a session that "
                   "exchanges data continuously is never terminated by another session's close or expiry, including after its identifier slot was reused."),
    "level_note": "The spoofer is given the victim's negotiated codec parameters (worst case). Sessions sharing one source address are not modelled (a UDP socket pair identifies a session).",
    "tiers": {
        "quick": {"runs": 720, "chunk": 15, "shrink_s": 60, "stall_s": 400},
        "thorough": {"runs": 6000, "chunk": 50, "shrink_s": 180, "stall_s": 400},
    },
}

PENDING = "check under construction in this round; see DESIGN.md section 5 for the planned simulation"
NOT_APPLICABLE = [
    {"property_id": "C08", "reason": "pure function of one byte string (codec Encode/Decode): no schedule, clock, fault or second party for a simulator to control; see DESIGN.md section 6"},
    {"property_id": "C09", "reason": "pure function of (command, fields, codec, domain) through Pack/Unpack: nothing for deterministic simulation to decide; DESIGN.md section 6"},
    {"property_id": "C10", "reason": "pure function of (response, record type, codec, domain) through Pack/Unpack: nothing for deterministic simulation to decide; DESIGN.md section 6"},
    {"property_id": "C18", "reason": "pure parse of a scheme string into a constructed type: no concurrency, time, I/O or faults involved; DESIGN.md section 6"},
]
for _p in ["C02","C03","C04","C05","C06","C07","C11","C12","C13","C14","C15","C16","C17","C19"]:
    if _p not in PROPS:
        NOT_APPLICABLE.append({"property_id": _p, "reason": PENDING})
